package main

import (
	"fmt"
	"go/token"
	"go/types"
	"os"
	"strconv"
	"strings"

	"golang.org/x/tools/go/ssa"
)

type tokenPos = token.Pos

type ufApp struct {
	args []*Term
	res  interface{} // *Term or *SymStr
}

var modelMethods = map[string]IntrinsicFn{}

// ---- uninterpreted functions (functionally consistent fresh symbols) ----

func termsKey(name string, args []*Term) string {
	var sb strings.Builder
	sb.WriteString(name)
	for _, a := range args {
		sb.WriteByte(',')
		sb.WriteString(strconv.Itoa(a.id))
	}
	return sb.String()
}

// uf returns a fresh bit-vector/Bool symbol standing for name(args), the same
// symbol for syntactically equal arguments, with Ackermann constraints against
// earlier applications of the same function.
func (in *Interp) uf(name string, w uint8, args ...*Term) *Term {
	b := in.b
	k := termsKey(name, args)
	if v, ok := in.ufMemo[k]; ok {
		return v.(*Term)
	}
	// all-constant arguments of a known-pure function could be folded by the caller
	n := len(in.ufApps[name])
	sym := b.Sym(fmt.Sprintf("uf_%s_%d_%d", sanitize(name), len(in.ufMemo), n), w)
	for _, app := range in.ufApps[name] {
		if len(app.args) != len(args) {
			continue
		}
		eqs := make([]*Term, len(args))
		compatible := true
		for i := range args {
			if app.args[i].w != args[i].w {
				compatible = false
				break
			}
			eqs[i] = b.Eq(app.args[i], args[i])
		}
		if !compatible {
			continue
		}
		in.constrain(b.Implies(b.And(eqs...), b.Eq(app.res.(*Term), sym)))
	}
	in.ufApps[name] = append(in.ufApps[name], ufApp{args: args, res: sym})
	in.ufMemo[k] = sym
	in.note("uf:" + name)
	return sym
}

func sanitize(s string) string {
	var sb strings.Builder
	for _, c := range s {
		if c >= 'a' && c <= 'z' || c >= 'A' && c <= 'Z' || c >= '0' && c <= '9' {
			sb.WriteRune(c)
		} else {
			sb.WriteByte('_')
		}
	}
	return sb.String()
}

// strTerms lists the terms that determine a string value (for UF keys).
func (in *Interp) strTerms(s *Str) []*Term {
	b := in.b
	var out []*Term
	for _, g := range s.segs {
		if g.sym == nil {
			for i := 0; i < len(g.c); i++ {
				out = append(out, b.BV(uint64(g.c[i]), 8))
			}
			continue
		}
		out = append(out, g.sym.Len)
		out = append(out, g.sym.B...)
	}
	return out
}

type strUFApp struct {
	args []*Str
	bv   []*Term
	res  *Str
}

// ufStr returns a fresh bounded string standing for name(strArgs, bvArgs).
// pred constrains every live byte (may be nil).  Functional consistency:
// identical argument structure gives the identical result; semantically equal
// arguments give equal results (Ackermann, via string equality).
func (in *Interp) ufStr(name string, minLen, maxLen int, pred func(*Term) *Term, strArgs []*Str, bvArgs []*Term) *Str {
	b := in.b
	var keyTerms []*Term
	for _, s := range strArgs {
		keyTerms = append(keyTerms, b.BV(uint64(len(s.segs)), 16))
		keyTerms = append(keyTerms, in.strTerms(s)...)
	}
	keyTerms = append(keyTerms, bvArgs...)
	k := "S:" + termsKey(name, keyTerms)
	if v, ok := in.ufMemo[k]; ok {
		return v.(*Str)
	}
	id := len(in.ufMemo)
	ln16 := b.SymBounded(fmt.Sprintf("ufs_%s_%d_len", sanitize(name), id), narrowW, uint64(minLen), uint64(maxLen))
	ln := b.ZExt(ln16, 64)
	side := []*Term{b.RawULe(b.BV(uint64(minLen), narrowW), ln16), b.RawULe(ln16, b.BV(uint64(maxLen), narrowW))}
	bs := make([]*Term, maxLen)
	for i := range bs {
		bs[i] = b.Sym(fmt.Sprintf("ufs_%s_%d_b%d", sanitize(name), id, i), 8)
		if pred != nil {
			side = append(side, b.Implies(b.ULt(b.BV(uint64(i), 64), ln), pred(bs[i])))
		}
	}
	in.constrain(b.And(side...))
	res := in.str.FromSym(&SymStr{Len: ln, B: bs})
	apps, _ := in.ufMemo["apps:"+name].([]strUFApp)
	for _, app := range apps {
		if len(app.args) != len(strArgs) || len(app.bv) != len(bvArgs) {
			continue
		}
		var eqs []*Term
		for i := range strArgs {
			eqs = append(eqs, in.str.Eq(app.args[i], strArgs[i]))
		}
		ok := true
		for i := range bvArgs {
			if app.bv[i].w != bvArgs[i].w {
				ok = false
				break
			}
			eqs = append(eqs, b.Eq(app.bv[i], bvArgs[i]))
		}
		if !ok {
			continue
		}
		pre := b.And(eqs...)
		if pre.IsFalse() {
			continue
		}
		in.constrain(b.Implies(pre, in.str.Eq(app.res, res)))
	}
	in.ufMemo["apps:"+name] = append(apps, strUFApp{args: strArgs, bv: bvArgs, res: res})
	in.ufMemo[k] = res
	in.note("uf:" + name)
	return res
}

func (in *Interp) isCleanByte(t *Term) *Term {
	b := in.b
	return b.And(b.Ne(t, b.BV(0, 8)), b.Ne(t, b.BV(10, 8)), b.Ne(t, b.BV(13, 8)))
}

// ---- nondet draws ----

func (in *Interp) drawBV(kind string, w uint8) *Term {
	if in.drawCursor < len(in.draws) {
		d := in.draws[in.drawCursor]
		if d.Kind != kind {
			in.unsupported("draw replay mismatch: want %s have %s", kind, d.Kind)
		}
		in.drawCursor++
		return d.Syms[0]
	}
	in.drawCursor++
	n := len(in.draws)
	sym := in.b.Sym(fmt.Sprintf("d%d_%s", n, kind), w)
	in.draws = append(in.draws, Draw{Kind: kind, Syms: []*Term{sym}, W: w})
	return sym
}

func (in *Interp) drawString(max int) *Str {
	b := in.b
	if in.drawCursor < len(in.draws) {
		d := in.draws[in.drawCursor]
		if d.Kind != "string" || d.Cap != max {
			in.unsupported("draw replay mismatch: want string/%d have %s/%d", max, d.Kind, d.Cap)
		}
		in.drawCursor++
		return in.str.FromSym(&SymStr{Len: b.ZExt(d.Syms[0], 64), B: d.Syms[1:]})
	}
	in.drawCursor++
	n := len(in.draws)
	ln16 := b.SymBounded(fmt.Sprintf("d%d_len%d", n, max), narrowW, 0, uint64(max))
	in.constrain(b.RawULe(ln16, b.BV(uint64(max), narrowW)))
	ln := b.ZExt(ln16, 64)
	syms := []*Term{ln16}
	bs := make([]*Term, max)
	for i := range bs {
		bs[i] = b.Sym(fmt.Sprintf("d%d_b%d", n, i), 8)
		syms = append(syms, bs[i])
	}
	in.draws = append(in.draws, Draw{Kind: "string", Syms: syms, Cap: max})
	return in.str.FromSym(&SymStr{Len: ln, B: bs})
}

// ---- errors ----

func (in *Interp) newError(msg *Str) Value {
	ep := in.eng.prog.ImportedPackage("errors")
	if ep == nil {
		in.unsupported("errors package not loaded")
	}
	et := ep.Type("errorString").Type()
	o := in.newObj(&StructV{F: []Value{msg}}, et, "error")
	o.heap = true
	return IfaceV{T: types.NewPointer(et), V: PtrV{obj: o}}
}

// errorString extracts the message of an error value by calling its Error method.
func (in *Interp) errorMsg(caller *frame, v IfaceV) *Str {
	if v.T == nil {
		return in.str.Const("<nil>")
	}
	if !hasMethod(v.T, "Error") {
		return in.str.Const("<error>")
	}
	f := in.eng.prog.LookupMethod(v.T, nil, "Error")
	if f == nil {
		return in.str.Const("<error>")
	}
	r := in.callSSA(caller, f, []Value{v.V}, nil, 0)
	if s, ok := r.(*Str); ok {
		return s
	}
	return in.str.Const("<error>")
}

func argStr(v Value) *Str {
	switch x := v.(type) {
	case *Str:
		return x
	case BytesV:
		return x.S
	}
	panic(fmt.Sprintf("argStr: %T", v))
}

func (in *Interp) toStrArg(v Value, pos tokenPos) *Str {
	switch x := v.(type) {
	case *Str:
		return x
	case BytesV:
		return x.S
	case SliceV:
		return in.sliceToStr(x, pos)
	}
	in.unsupported("expected string-like, got %T", v)
	return nil
}

// ---- harness API ----

func harnessAPI(name string) (IntrinsicFn, bool) {
	switch name {
	case "nondetU64":
		return func(in *Interp, _ *frame, _ *ssa.Function, _ []Value, _ tokenPos) Value { return Sc{in.drawBV("u64", 64)} }, true
	case "nondetI64":
		return func(in *Interp, _ *frame, _ *ssa.Function, _ []Value, _ tokenPos) Value { return Sc{in.drawBV("i64", 64)} }, true
	case "nondetI64In":
		return func(in *Interp, _ *frame, _ *ssa.Function, args []Value, _ tokenPos) Value {
			lo, hi := args[0].(Sc).T, args[1].(Sc).T
			if !lo.IsConst() || !hi.IsConst() {
				in.unsupported("nondetI64In with symbolic bounds")
			}
			if in.drawCursor < len(in.draws) {
				d := in.draws[in.drawCursor]
				in.drawCursor++
				return Sc{d.Syms[0]}
			}
			in.drawCursor++
			n := len(in.draws)
			l, h := int64(lo.val), int64(hi.val)
			sym := in.b.SymSigned(fmt.Sprintf("d%d_i64r%x_%x", n, uint64(l), uint64(h)), 64, l, h)
			in.draws = append(in.draws, Draw{Kind: "i64", Syms: []*Term{sym}, W: 64})
			in.constrain(in.b.And(in.b.RawSLe(lo, sym), in.b.RawSLe(sym, hi)))
			return Sc{sym}
		}, true
	case "nondetInt":
		return func(in *Interp, _ *frame, _ *ssa.Function, _ []Value, _ tokenPos) Value { return Sc{in.drawBV("int", 64)} }, true
	case "nondetU8":
		return func(in *Interp, _ *frame, _ *ssa.Function, _ []Value, _ tokenPos) Value { return Sc{in.drawBV("u8", 8)} }, true
	case "nondetBool":
		return func(in *Interp, _ *frame, _ *ssa.Function, _ []Value, _ tokenPos) Value { return Sc{in.drawBV("bool", 0)} }, true
	case "nondetString":
		return func(in *Interp, _ *frame, _ *ssa.Function, args []Value, _ tokenPos) Value {
			m := args[0].(Sc).T
			if !m.IsConst() {
				in.unsupported("nondetString with symbolic bound")
			}
			return in.drawString(int(m.val))
		}, true
	case "verifAssume":
		return func(in *Interp, _ *frame, _ *ssa.Function, args []Value, _ tokenPos) Value {
			in.assume(args[0].(Sc).T)
			return nil
		}, true
	case "verifAssert":
		return func(in *Interp, _ *frame, _ *ssa.Function, args []Value, pos tokenPos) Value {
			label, _ := args[1].(*Str).Concrete()
			c := args[0].(Sc).T
			if in.witness {
				// reachability twin: the assertion site must be reachable
				panic(&pathEnd{kind: "witness", msg: label})
			}
			if c.IsTrue() {
				in.asserts++
				return nil
			}
			in.w.obligations++
			if in.branch(c) {
				in.asserts++
				return nil
			}
			in.failLabel = label
			msg := label
			if strings.HasPrefix(label, "locksets:") && in.raceDesc != "" {
				msg = label + " — " + in.raceDesc
			}
			panic(&pathEnd{kind: "assertfail", msg: msg})
		}, true
	case "verifCase":
		return func(in *Interp, _ *frame, _ *ssa.Function, args []Value, _ tokenPos) Value {
			n := args[0].(Sc).T
			if !n.IsConst() {
				in.unsupported("verifCase with symbolic n")
			}
			if n.val == 0 {
				panic(&pathEnd{kind: "assume"})
			}
			if in.drawCursor < len(in.draws) {
				d := in.draws[in.drawCursor]
				in.drawCursor++
				return Sc{in.b.BV(uint64(d.Val), 64)}
			}
			in.drawCursor++
			conds := make([]*Term, n.val)
			for i := range conds {
				conds[i] = in.b.True
			}
			k := 0
			if n.val > 1 {
				k = in.choose(conds)
			}
			in.draws = append(in.draws, Draw{Kind: "case", N: int(n.val), Val: k})
			return Sc{in.b.BV(uint64(k), 64)}
		}, true
	case "verifParam":
		return func(in *Interp, _ *frame, _ *ssa.Function, args []Value, _ tokenPos) Value {
			name, _ := args[0].(*Str).Concrete()
			def := args[1].(Sc).T
			if v, ok := in.opts.Params[name]; ok {
				return Sc{in.b.BV(uint64(v), 64)}
			}
			return Sc{def}
		}, true
	case "verifDrawMark":
		return func(in *Interp, _ *frame, _ *ssa.Function, args []Value, _ tokenPos) Value {
			return Sc{in.b.BV(uint64(in.drawCursor), 64)}
		}, true
	case "verifDrawRewind":
		return func(in *Interp, _ *frame, _ *ssa.Function, args []Value, _ tokenPos) Value {
			in.drawCursor = int(args[0].(Sc).T.val)
			return nil
		}, true
	case "verifRegexpEither":
		return func(in *Interp, _ *frame, _ *ssa.Function, args []Value, pos tokenPos) Value {
			p1, ok1 := args[1].(*Str).Concrete()
			p2, ok2 := args[2].(*Str).Concrete()
			if !ok1 || !ok2 {
				in.unsupported("verifRegexpEither needs constant expressions")
			}
			r1 := in.newRegexp(p1, args[1].(*Str), pos).(PtrV)
			r2 := in.newRegexp(p2, args[2].(*Str), pos).(PtrV)
			rm := r1.obj.val.(OpaqueV).Data.(*reModel)
			rm.sel = args[0].(Sc).T
			rm.alt = r2.obj.val.(OpaqueV).Data.(*reModel)
			return r1
		}, true
	case "verifSentMessages":
		return func(in *Interp, _ *frame, fn *ssa.Function, args []Value, _ tokenPos) Value {
			rp := args[0].(PtrV)
			var vals []Value
			for _, c := range in.sent {
				if c.reply == rp.obj {
					vals = append(vals, c.msg)
				}
			}
			return in.mkSlice(vals, fn.Signature.Results().At(0).Type().Underlying().(*types.Slice).Elem())
		}, true
	case "verifNote":
		return func(in *Interp, _ *frame, _ *ssa.Function, args []Value, _ tokenPos) Value {
			s, _ := args[0].(*Str).Concrete()
			in.note("harness:" + s)
			return nil
		}, true
	case "verifCaseLabel":
		return func(in *Interp, _ *frame, _ *ssa.Function, args []Value, _ tokenPos) Value {
			s, _ := args[0].(*Str).Concrete()
			in.caseLabel = s
			return nil
		}, true
	case "verifTrace":
		return func(in *Interp, _ *frame, _ *ssa.Function, args []Value, _ tokenPos) Value {
			tag, _ := args[0].(*Str).Concrete()
			var vals []Value
			if sl, ok := args[1].(SliceV); ok && sl.arr != nil {
				arr := sl.arr.val.(*ArrayV)
				for i := 0; i < sl.len; i++ {
					vals = append(vals, arr.E[sl.off+i])
				}
			}
			in.trace = append(in.trace, TraceRec{Tag: tag, Vals: vals})
			return nil
		}, true
	case "verifMapPutIf":
		return func(in *Interp, _ *frame, _ *ssa.Function, args []Value, _ tokenPos) Value {
			m := args[0].(IfaceV).V.(MapV)
			k := args[1].(IfaceV).V
			v := args[2].(IfaceV).V
			in.mapPutIf(m, k, v, args[3].(Sc).T)
			return nil
		}, true
	case "verifDeepEq":
		return func(in *Interp, _ *frame, _ *ssa.Function, args []Value, _ tokenPos) Value {
			opts, _ := args[2].(*Str).Concrete()
			x, y := args[0].(IfaceV), args[1].(IfaceV)
			return Sc{in.deepEq(x.V, y.V, x.T, newDeepOpts(opts))}
		}, true
	case "verifIsASCII":
		return func(in *Interp, _ *frame, _ *ssa.Function, args []Value, _ tokenPos) Value {
			return Sc{in.str.IsASCII(args[0].(*Str))}
		}, true
	case "verifClean":
		return func(in *Interp, _ *frame, _ *ssa.Function, args []Value, _ tokenPos) Value {
			return Sc{in.str.AllBytes(args[0].(*Str), func(c byte) bool { return c != 0 && c != 10 && c != 13 }, in.isCleanByte)}
		}, true
	case "verifOr", "verifAnd":
		isOr := name == "verifOr"
		return func(in *Interp, _ *frame, _ *ssa.Function, args []Value, _ tokenPos) Value {
			var ts []*Term
			for _, e := range sliceElems(args[0]) {
				ts = append(ts, e.(Sc).T)
			}
			if isOr {
				return Sc{in.b.Or(ts...)}
			}
			return Sc{in.b.And(ts...)}
		}, true
	case "verifImplies":
		return func(in *Interp, _ *frame, _ *ssa.Function, args []Value, _ tokenPos) Value {
			return Sc{in.b.Implies(args[0].(Sc).T, args[1].(Sc).T)}
		}, true
	case "verifIteS":
		return func(in *Interp, _ *frame, _ *ssa.Function, args []Value, _ tokenPos) Value {
			return in.str.Ite(args[0].(Sc).T, args[1].(*Str), args[2].(*Str))
		}, true
	case "verifIteT":
		return func(in *Interp, _ *frame, _ *ssa.Function, args []Value, _ tokenPos) Value {
			v, ok := in.iteTime(args[0].(Sc).T, args[1].(TimeV), args[2].(TimeV))
			if !ok {
				in.unsupported("verifIteT on times of different resolution")
			}
			return v
		}, true
	case "verifIteU":
		return func(in *Interp, _ *frame, _ *ssa.Function, args []Value, _ tokenPos) Value {
			return Sc{in.b.Ite(args[0].(Sc).T, args[1].(Sc).T, args[2].(Sc).T)}
		}, true
	case "verifSlots", "verifSlotKey", "verifSlotVal", "verifSlotPresent":
		return func(in *Interp, _ *frame, fn *ssa.Function, args []Value, _ tokenPos) Value {
			iv := args[0].(IfaceV)
			mv, _ := iv.V.(MapV)
			var live []*MapEntry
			if mv.m != nil {
				for _, e := range mv.m.entries {
					if !e.present.IsFalse() {
						live = append(live, e)
					}
				}
			}
			if name == "verifSlots" {
				return Sc{in.b.BV(uint64(len(live)), 64)}
			}
			it := args[1].(Sc).T
			if !it.IsConst() || it.val >= uint64(len(live)) {
				in.unsupported("%s: slot index must be a concrete in-range value", name)
			}
			e := live[it.val]
			switch name {
			case "verifSlotKey":
				return IfaceV{T: mv.m.kt, V: copyVal(e.key)}
			case "verifSlotVal":
				return IfaceV{T: mv.m.vt, V: copyVal(e.val)}
			}
			return Sc{e.present}
		}, true
	case "verifSetEnv":
		return func(in *Interp, _ *frame, fn *ssa.Function, args []Value, _ tokenPos) Value {
			in.ghost["env:yield"] = args[0]
			if f, ok := args[1].(FuncV); ok && !f.Nil {
				in.ghost["env:blocked"] = args[1]
			}
			return nil
		}, true
	case "verifSetBasicAuth":
		return func(in *Interp, _ *frame, fn *ssa.Function, args []Value, _ tokenPos) Value {
			in.ghost["basicauth"] = TupleV{E: []Value{args[0], args[1], args[2], args[3]}}
			return nil
		}, true
	case "verifChunkReader":
		return func(in *Interp, _ *frame, fn *ssa.Function, args []Value, pos tokenPos) Value {
			m := &bufrModel{}
			if sl, ok := args[0].(SliceV); ok && sl.arr != nil {
				for _, e := range sliceElems(sl) {
					m.chunks = append(m.chunks, in.toStrArg(e, pos))
				}
			}
			o := in.newObj(OpaqueV{Tag: "bufr", Data: m}, fn.Signature.Results().At(0).Type().(*types.Pointer).Elem(), "chunk reader")
			o.heap = true
			return PtrV{obj: o}
		}, true
	case "verifEncoded":
		return func(in *Interp, _ *frame, fn *ssa.Function, args []Value, _ tokenPos) Value {
			return in.mkSlice(append([]Value{}, in.encoded...), fn.Signature.Results().At(0).Type().Underlying().(*types.Slice).Elem())
		}, true
	case "verifJSONBody":
		return func(in *Interp, _ *frame, fn *ssa.Function, args []Value, _ tokenPos) Value {
			in.ghost["body:json"] = args[0]
			in.ghost["body:valid"] = args[1]
			in.ghost["body:text"] = in.str.Const("{}")
			return IfaceV{T: types.Typ[types.UnsafePointer], V: OpaqueV{Tag: "body"}}
		}, true
	case "verifTextBody":
		return func(in *Interp, _ *frame, fn *ssa.Function, args []Value, _ tokenPos) Value {
			in.ghost["body:text"] = args[0]
			in.ghost["body:valid"] = args[1]
			return IfaceV{T: types.Typ[types.UnsafePointer], V: OpaqueV{Tag: "body"}}
		}, true
	case "verifPermute":
		return func(in *Interp, _ *frame, fn *ssa.Function, args []Value, _ tokenPos) Value {
			in.permuteMode = int(args[0].(Sc).T.val)
			in.permuteUsed = false
			return nil
		}, true
	case "verifOp":
		return func(in *Interp, _ *frame, fn *ssa.Function, args []Value, _ tokenPos) Value {
			name, _ := args[0].(*Str).Concrete()
			in.curOp = name
			in.trackAcc = name != ""
			return nil
		}, true
	case "verifLocksetsConsistent":
		return func(in *Interp, _ *frame, fn *ssa.Function, args []Value, _ tokenPos) Value {
			a, c, bad := in.locksetConflict()
			if bad {
				in.raceDesc = fmt.Sprintf("%s %s at %s (%s, locks %v) vs %s %s at %s (locks %v)", a.Op, rw(a.Write), a.Pos, a.Loc, a.Locks, c.Op, rw(c.Write), c.Pos, c.Locks)
				in.note("lockset-conflict: " + in.raceDesc)
			}
			return Sc{in.b.Bool(!bad)}
		}, true
	case "verifConcurrently":
		return func(in *Interp, caller *frame, fn *ssa.Function, args []Value, pos tokenPos) Value {
			in.callValue(caller, args[0], nil, pos)
			in.callValue(caller, args[1], nil, pos)
			return nil
		}, true
	case "verifSetNow":
		return func(in *Interp, _ *frame, fn *ssa.Function, args []Value, _ tokenPos) Value {
			in.ghost["now"] = args[0]
			return nil
		}, true
	case "verifOnExit":
		return func(in *Interp, _ *frame, fn *ssa.Function, args []Value, _ tokenPos) Value {
			in.ghost["env:exit"] = args[0]
			return nil
		}, true
	case "verifNewLevelDB":
		return func(in *Interp, _ *frame, fn *ssa.Function, args []Value, _ tokenPos) Value {
			et := fn.Signature.Results().At(0).Type().(*types.Pointer).Elem()
			o := in.newObj(OpaqueV{Tag: "ldb", Data: &ldbModel{}}, et, "leveldb.DB")
			o.heap = true
			return PtrV{obj: o}
		}, true
	case "verifLevelDBPutIf":
		return func(in *Interp, _ *frame, fn *ssa.Function, args []Value, pos tokenPos) Value {
			m := in.ldbOf(args[0], pos)
			m.slots = append(m.slots, &ldbSlot{key: in.toStrArg(args[1], pos), val: in.toStrArg(args[2], pos), present: args[3].(Sc).T})
			return nil
		}, true
	case "verifLevelDBWrites":
		return func(in *Interp, _ *frame, fn *ssa.Function, args []Value, pos tokenPos) Value {
			return Sc{in.b.BV(uint64(in.ldbOf(args[0], pos).writes), 64)}
		}, true
	case "verifLevelDBLen":
		return func(in *Interp, _ *frame, fn *ssa.Function, args []Value, pos tokenPos) Value {
			m := in.ldbOf(args[0], pos)
			b := in.b
			t := b.BV(0, 64)
			for _, s := range m.slots {
				t = b.Add(t, b.Ite(s.present, b.BV(1, 64), b.BV(0, 64)))
			}
			return Sc{t}
		}, true
	case "verifSymbolic":
		return func(in *Interp, _ *frame, _ *ssa.Function, _ []Value, _ tokenPos) Value { return Sc{in.b.True} }, true
	case "verifGhostSet", "verifGhostGet":
		return envAPI(name)
	}
	return nil, false
}

// ---- registration ----

func init() {
	nop := func(in *Interp, _ *frame, _ *ssa.Function, _ []Value, _ tokenPos) Value { return nil }
	for _, m := range []string{"Inc", "Dec", "Add", "Set", "Observe", "Sub", "SetToCurrentTime"} {
		modelMethods["model:prometheus."+m] = nop
	}
}

func registerIntrinsics(e *Engine) {
	reg := func(name string, f IntrinsicFn) { e.intr[name] = f }
	noop := func(in *Interp, _ *frame, fn *ssa.Function, _ []Value, _ tokenPos) Value {
		return in.zeroResults(fn)
	}
	for _, n := range []string{
		"log.Printf", "log.Println", "log.Print", "(*log.Logger).Printf", "(*log.Logger).Println",
		"github.com/stapelberg/glog.Infof", "github.com/stapelberg/glog.Warningf", "github.com/stapelberg/glog.Errorf",
		"github.com/stapelberg/glog.Info", "github.com/stapelberg/glog.Warning", "github.com/stapelberg/glog.Error",
		"github.com/stapelberg/glog.Infoln", "github.com/stapelberg/glog.Errorln",
		"github.com/prometheus/client_golang/prometheus.MustRegister",
		"(*sync.WaitGroup).Add", "(*sync.WaitGroup).Done", "(*sync.WaitGroup).Wait",
		"runtime.GC", "runtime/debug.FreeOSMemory",
		"github.com/hashicorp/go-metrics.MeasureSince", "github.com/hashicorp/go-metrics.IncrCounter", "github.com/hashicorp/go-metrics.SetGauge", "github.com/hashicorp/go-metrics.AddSample",
		"github.com/armon/go-metrics.MeasureSince",
	} {
		reg(n, noop)
	}
	opaque := func(tag string) IntrinsicFn {
		return func(in *Interp, _ *frame, fn *ssa.Function, _ []Value, _ tokenPos) Value {
			res := fn.Signature.Results()
			if res.Len() == 0 {
				return nil
			}
			return in.opaqueOfType(res.At(0).Type(), tag)
		}
	}
	for _, n := range []string{
		"(*github.com/prometheus/client_golang/prometheus.CounterVec).WithLabelValues",
		"(*github.com/prometheus/client_golang/prometheus.GaugeVec).WithLabelValues",
		"(*github.com/prometheus/client_golang/prometheus.SummaryVec).WithLabelValues",
		"(*github.com/prometheus/client_golang/prometheus.HistogramVec).WithLabelValues",
		"github.com/prometheus/client_golang/prometheus.NewCounterVec",
		"github.com/prometheus/client_golang/prometheus.NewCounter",
		"github.com/prometheus/client_golang/prometheus.NewGauge",
		"github.com/prometheus/client_golang/prometheus.NewGaugeVec",
		"github.com/prometheus/client_golang/prometheus.NewGaugeFunc",
		"github.com/prometheus/client_golang/prometheus.NewSummary",
		"github.com/prometheus/client_golang/prometheus.NewSummaryVec",
		"github.com/prometheus/client_golang/prometheus.NewHistogram",
		"github.com/prometheus/client_golang/prometheus.NewHistogramVec",
	} {
		reg(n, opaque("prometheus"))
	}
	reg("log.Panicf", func(in *Interp, _ *frame, _ *ssa.Function, args []Value, pos tokenPos) Value {
		in.goPanicf(pos, "log.Panicf", "log.Panicf")
		return nil
	})
	reg("log.Panic", func(in *Interp, _ *frame, _ *ssa.Function, args []Value, pos tokenPos) Value {
		in.goPanicf(pos, "log.Panic", "log.Panic")
		return nil
	})
	exit := func(in *Interp, caller *frame, fn *ssa.Function, _ []Value, pos tokenPos) Value {
		if h, ok := in.ghost["env:exit"]; ok && !in.inYield {
			// the harness observes the state at process exit
			in.inYield = true
			in.callValue(caller, h, nil, pos)
			in.inYield = false
			panic(&pathEnd{kind: "done", msg: "exit observed: " + fn.Name() + "@" + in.posStr(pos)})
		}
		panic(&pathEnd{kind: "exit", msg: fn.Name() + "@" + in.posStr(pos)})
	}
	for _, n := range []string{"log.Fatalf", "log.Fatal", "log.Fatalln", "os.Exit",
		"github.com/stapelberg/glog.Fatalf", "github.com/stapelberg/glog.Fatal", "github.com/stapelberg/glog.Exitf"} {
		reg(n, exit)
	}
	reg("os.MkdirTemp", func(in *Interp, _ *frame, _ *ssa.Function, args []Value, _ tokenPos) Value {
		return TupleV{E: []Value{in.str.Const("/tmp/verif-model-dir"), IfaceV{}}}
	})
	reg("io/ioutil.TempDir", func(in *Interp, _ *frame, _ *ssa.Function, args []Value, _ tokenPos) Value {
		return TupleV{E: []Value{in.str.Const("/tmp/verif-model-dir"), IfaceV{}}}
	})
	reg("os.RemoveAll", func(in *Interp, _ *frame, _ *ssa.Function, args []Value, _ tokenPos) Value { return IfaceV{} })
	reg("os.Getenv", func(in *Interp, _ *frame, _ *ssa.Function, args []Value, _ tokenPos) Value {
		return in.str.Const("")
	})
	reg("flag.Bool", func(in *Interp, _ *frame, _ *ssa.Function, args []Value, _ tokenPos) Value {
		o := in.newObj(Sc{args[1].(Sc).T}, types.Typ[types.Bool], "flag.Bool")
		o.heap = true
		return PtrV{obj: o}
	})
	reg("flag.String", func(in *Interp, _ *frame, _ *ssa.Function, args []Value, _ tokenPos) Value {
		o := in.newObj(args[1], types.Typ[types.String], "flag.String")
		o.heap = true
		return PtrV{obj: o}
	})
	reg("flag.Int", func(in *Interp, _ *frame, _ *ssa.Function, args []Value, _ tokenPos) Value {
		o := in.newObj(args[1], types.Typ[types.Int], "flag.Int")
		o.heap = true
		return PtrV{obj: o}
	})
	for _, nm := range []string{"flag.Int64", "flag.Uint64", "flag.Uint", "flag.Float64"} {
		reg(nm, func(in *Interp, _ *frame, fn *ssa.Function, args []Value, _ tokenPos) Value {
			o := in.newObj(args[1], fn.Signature.Results().At(0).Type().(*types.Pointer).Elem(), fn.Name())
			o.heap = true
			return PtrV{obj: o}
		})
	}
	reg("flag.Duration", func(in *Interp, _ *frame, _ *ssa.Function, args []Value, _ tokenPos) Value {
		o := in.newObj(args[1], types.Typ[types.Int64], "flag.Duration")
		o.heap = true
		return PtrV{obj: o}
	})
	registerStrings(e)
	registerTime(e)
	registerSync(e)
	registerFmt(e)
	registerMisc(e)
}

// opaqueOfType wraps an opaque library object in a value of the right shape.
func (in *Interp) opaqueOfType(t types.Type, tag string) Value {
	switch t.Underlying().(type) {
	case *types.Pointer:
		o := in.newObj(OpaqueV{Tag: tag}, t.Underlying().(*types.Pointer).Elem(), tag)
		o.heap = true
		return PtrV{obj: o}
	case *types.Interface:
		return IfaceV{T: types.Typ[types.UnsafePointer], V: OpaqueV{Tag: tag}}
	}
	return OpaqueV{Tag: tag}
}

func (in *Interp) externalGlobal(g *ssa.Global, et types.Type) Value {
	name := g.String()
	switch name {
	case "encoding/base64.StdEncoding", "encoding/base64.URLEncoding":
		o := in.newObj(OpaqueV{Tag: "base64"}, et.(*types.Pointer).Elem(), name)
		return PtrV{obj: o}
	case "os.Stderr", "os.Stdout", "os.Stdin":
		o := in.newObj(OpaqueV{Tag: "file"}, et.(*types.Pointer).Elem(), name)
		return PtrV{obj: o}
	case "time.UTC", "time.Local":
		o := in.newObj(OpaqueV{Tag: "loc"}, et.(*types.Pointer).Elem(), name)
		return PtrV{obj: o}
	}
	if it, ok := et.Underlying().(*types.Interface); ok && it.NumMethods() == 1 && it.Method(0).Name() == "Error" {
		// error variables of library packages: one distinct error object each
		return in.externalError(name)
	}
	if os.Getenv("GOSYM_DEBUG") != "" {
		fmt.Fprintln(os.Stderr, "external global", name)
	}
	return in.zero(et)
}

func (in *Interp) opaqueStructZero(t types.Type) (Value, bool) {
	n, ok := t.(*types.Named)
	if !ok || n.Obj().Pkg() == nil {
		return nil, false
	}
	switch n.Obj().Pkg().Path() + "." + n.Obj().Name() {
	case "bytes.Buffer":
		return OpaqueV{Tag: "bytes.Buffer", Data: &bufModel{s: &Str{}}}, true
	case "strings.Builder":
		return OpaqueV{Tag: "bytes.Buffer", Data: &bufModel{s: &Str{}}}, true
	case "github.com/syndtr/goleveldb/leveldb.Batch":
		return OpaqueV{Tag: "ldb.Batch", Data: &ldbBatch{}}, true
	case "sync.Once":
		return OpaqueV{Tag: "sync.Once", Data: &onceModel{}}, true
	}
	return nil, false
}

type bufModel struct{ s *Str }
type onceModel struct{ done bool }

func (in *Interp) opaqueField(sv Value, x *ssa.Field) Value {
	in.unsupported("Field on %T at %s", sv, in.posStr(x.Pos()))
	return nil
}

// modelMethod resolves interface method calls on engine model objects.
func (in *Interp) modelMethod(recv IfaceV, m *types.Func) (Value, bool) {
	if o, ok := recv.V.(OpaqueV); ok {
		name := "model:" + o.Tag + "." + m.Name()
		if _, ok := modelMethods[name]; ok {
			return FuncV{Builtin: name, Recv: recv.V}, true
		}
		in.unsupported("method %s on model object %s", m.Name(), o.Tag)
	}
	if p, ok := recv.V.(PtrV); ok && p.obj != nil {
		if o, ok := p.obj.val.(OpaqueV); ok && len(p.path) == 0 {
			name := "model:" + o.Tag + "." + m.Name()
			if _, ok := modelMethods[name]; ok {
				return FuncV{Builtin: name, Recv: recv.V}, true
			}
		}
	}
	return nil, false
}

func rw(w bool) string {
	if w {
		return "writes"
	}
	return "reads"
}
