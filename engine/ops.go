package main

import (
	"fmt"
	"go/token"
	"go/types"
	"math"

	"golang.org/x/tools/go/ssa"
)

func mathFloat64bits(f float64) uint64 { return math.Float64bits(f) }

// ---- memory ----

// navigate returns the cell addressed by all but the last path element, and the last element.
func (in *Interp) resolve(p PtrV, pos token.Pos) (parent Value, last *PathElem) {
	if p.obj == nil {
		in.goPanicf(pos, "nilderef", "invalid memory address or nil pointer dereference")
	}
	if len(p.path) == 0 {
		return nil, nil
	}
	v := p.obj.val
	for i := 0; i < len(p.path)-1; i++ {
		e := p.path[i]
		if e.sym != nil {
			in.unsupported("symbolic index in the middle of an access path")
		}
		switch c := v.(type) {
		case *StructV:
			v = c.F[e.idx]
		case *ArrayV:
			v = c.E[e.idx]
		default:
			in.unsupported("path through %T", v)
		}
	}
	return v, &p.path[len(p.path)-1]
}

func (in *Interp) load(p PtrV, pos token.Pos) Value {
	if in.trackAcc {
		in.recordAccess(p, false, pos)
	}
	parent, last := in.resolve(p, pos)
	if last == nil {
		return copyVal(p.obj.val)
	}
	switch c := parent.(type) {
	case *StructV:
		return copyVal(c.F[last.idx])
	case *ArrayV:
		if last.sym != nil {
			return in.symIndexLoad(c, last.sym)
		}
		return copyVal(c.E[last.idx])
	}
	in.unsupported("load through %T", parent)
	return nil
}

func (in *Interp) symIndexLoad(c *ArrayV, idx *Term) Value {
	b := in.b
	n := len(c.E)
	if n == 0 {
		in.unsupported("symbolic index into empty array")
	}
	lo, hi := int(idx.lo), n-1
	if idx.hi < uint64(hi) {
		hi = int(idx.hi)
	}
	if lo > hi {
		lo = hi
	}
	switch c.E[lo].(type) {
	case Sc:
		res := c.E[hi].(Sc).T
		for k := hi - 1; k >= lo; k-- {
			res = b.Ite(b.Eq(idx, b.BV(uint64(k), 64)), c.E[k].(Sc).T, res)
		}
		return Sc{res}
	case *Str:
		res := c.E[hi].(*Str)
		for k := hi - 1; k >= lo; k-- {
			res = in.str.Ite(b.Eq(idx, b.BV(uint64(k), 64)), c.E[k].(*Str), res)
		}
		return res
	}
	// other element kinds: fork on the index
	k := int(in.concretize(idx, "array index"))
	return copyVal(c.E[k])
}

func (in *Interp) store(p PtrV, v Value, pos token.Pos) {
	if in.trackAcc {
		in.recordAccess(p, true, pos)
		if p.obj != nil && p.obj.heap {
			in.publish(v, 0)
		}
	}
	parent, last := in.resolve(p, pos)
	v = copyVal(v)
	if last == nil {
		p.obj.val = v
		return
	}
	switch c := parent.(type) {
	case *StructV:
		c.F[last.idx] = v
	case *ArrayV:
		if last.sym != nil {
			b := in.b
			sv, ok := v.(Sc)
			if !ok {
				k := int(in.concretize(last.sym, "array index"))
				c.E[k] = v
				return
			}
			for k := range c.E {
				if uint64(k) < last.sym.lo || uint64(k) > last.sym.hi {
					continue
				}
				c.E[k] = Sc{b.Ite(b.Eq(last.sym, b.BV(uint64(k), 64)), sv.T, c.E[k].(Sc).T)}
			}
			return
		}
		c.E[last.idx] = v
	default:
		in.unsupported("store through %T", parent)
	}
}

// ---- unary / binary ----

func (in *Interp) unop(fr *frame, x *ssa.UnOp) Value {
	b := in.b
	v := fr.get(x.X)
	switch x.Op {
	case token.MUL: // load
		p, ok := v.(PtrV)
		if !ok {
			in.unsupported("deref of %T", v)
		}
		if p.IsNil() {
			in.goPanicf(x.Pos(), "nilderef", "invalid memory address or nil pointer dereference")
		}
		return in.load(p, x.Pos())
	case token.NOT:
		return Sc{b.Not(v.(Sc).T)}
	case token.SUB:
		if isFloat(x.X.Type()) {
			return in.floatUF("fneg", v.(Sc).T)
		}
		return Sc{b.Neg(v.(Sc).T)}
	case token.XOR:
		return Sc{b.BvNot(v.(Sc).T)}
	case token.ARROW:
		return in.chanRecv(v, x.CommaOk, x.Type(), x.Pos())
	}
	in.unsupported("unop %v", x.Op)
	return nil
}

func (in *Interp) binop(op token.Token, t types.Type, xv, yv Value, pos token.Pos) Value {
	b := in.b
	// strings
	if xs, ok := xv.(*Str); ok {
		ys := yv.(*Str)
		so := in.str
		switch op {
		case token.ADD:
			return so.Concat(xs, ys)
		case token.EQL:
			return Sc{so.Eq(xs, ys)}
		case token.NEQ:
			return Sc{b.Not(so.Eq(xs, ys))}
		case token.LSS:
			return Sc{so.Lt(xs, ys)}
		case token.GTR:
			return Sc{so.Lt(ys, xs)}
		case token.LEQ:
			return Sc{b.Not(so.Lt(ys, xs))}
		case token.GEQ:
			return Sc{b.Not(so.Lt(xs, ys))}
		}
		in.unsupported("string binop %v", op)
	}
	switch op {
	case token.EQL:
		return Sc{in.equalValues(xv, yv, t, pos)}
	case token.NEQ:
		return Sc{b.Not(in.equalValues(xv, yv, t, pos))}
	}
	xs, ok1 := xv.(Sc)
	ys, ok2 := yv.(Sc)
	if !ok1 || !ok2 {
		in.unsupported("binop %v on %T,%T", op, xv, yv)
	}
	x, y := xs.T, ys.T
	if isFloat(t) {
		return in.floatBin(op, x, y)
	}
	_, signed, _ := intWidth(t)
	switch op {
	case token.ADD:
		return Sc{b.Add(x, y)}
	case token.SUB:
		return Sc{b.Sub(x, y)}
	case token.MUL:
		return Sc{b.Mul(x, y)}
	case token.QUO, token.REM:
		if !y.IsConst() || y.val == 0 {
			if in.branch(b.Eq(y, b.BV(0, y.w))) {
				in.goPanicf(pos, "divzero", "integer divide by zero")
			}
		}
		if op == token.QUO {
			if signed {
				return Sc{b.SDiv(x, y)}
			}
			return Sc{b.UDiv(x, y)}
		}
		if signed {
			return Sc{b.SRem(x, y)}
		}
		return Sc{b.URem(x, y)}
	case token.AND:
		if x.w == 0 {
			return Sc{b.And(x, y)}
		}
		return Sc{b.BvAnd(x, y)}
	case token.OR:
		if x.w == 0 {
			return Sc{b.Or(x, y)}
		}
		return Sc{b.BvOr(x, y)}
	case token.XOR:
		return Sc{b.BvXor(x, y)}
	case token.AND_NOT:
		return Sc{b.BvAnd(x, b.BvNot(y))}
	case token.SHL, token.SHR:
		// shift count may have a different width; Go: count >= width gives 0 (or sign fill)
		cnt := y
		if cnt.w != x.w {
			if cnt.w < x.w {
				cnt = b.ZExt(cnt, x.w)
			} else {
				// wide count: saturate
				big := b.ULe(b.BV(uint64(x.w), cnt.w), cnt)
				cnt = b.Ite(big, b.BV(uint64(x.w), x.w), b.Extract(cnt, x.w-1, 0))
			}
		}
		if op == token.SHL {
			return Sc{b.Shl(x, cnt)}
		}
		if signed {
			return Sc{b.AShr(x, cnt)}
		}
		return Sc{b.LShr(x, cnt)}
	case token.LSS:
		if signed {
			return Sc{b.SLt(x, y)}
		}
		return Sc{b.ULt(x, y)}
	case token.LEQ:
		if signed {
			return Sc{b.SLe(x, y)}
		}
		return Sc{b.ULe(x, y)}
	case token.GTR:
		if signed {
			return Sc{b.SLt(y, x)}
		}
		return Sc{b.ULt(y, x)}
	case token.GEQ:
		if signed {
			return Sc{b.SLe(y, x)}
		}
		return Sc{b.ULe(y, x)}
	}
	in.unsupported("binop %v", op)
	return nil
}

// equalValues implements Go's == on two values of static type t.
func (in *Interp) equalValues(xv, yv Value, t types.Type, pos token.Pos) *Term {
	b := in.b
	switch x := xv.(type) {
	case Sc:
		return b.Eq(x.T, yv.(Sc).T)
	case *Str:
		return in.str.Eq(x, yv.(*Str))
	case PtrV:
		y, ok := yv.(PtrV)
		if !ok {
			return b.False
		}
		return b.Bool(ptrEqual(x, y))
	case *StructV:
		y := yv.(*StructV)
		conj := make([]*Term, 0, len(x.F))
		st, _ := t.Underlying().(*types.Struct)
		for i := range x.F {
			var ft types.Type
			if st != nil {
				ft = st.Field(i).Type()
			}
			conj = append(conj, in.equalValues(x.F[i], y.F[i], ft, pos))
		}
		return b.And(conj...)
	case *ArrayV:
		y := yv.(*ArrayV)
		conj := make([]*Term, 0, len(x.E))
		var et types.Type
		if at, ok := t.Underlying().(*types.Array); ok {
			et = at.Elem()
		}
		for i := range x.E {
			conj = append(conj, in.equalValues(x.E[i], y.E[i], et, pos))
		}
		return b.And(conj...)
	case IfaceV:
		y, ok := yv.(IfaceV)
		if !ok {
			in.unsupported("iface == %T", yv)
		}
		if x.T == nil || y.T == nil {
			return b.Bool(x.T == nil && y.T == nil)
		}
		if !types.Identical(x.T, y.T) {
			return b.False
		}
		return in.equalValues(x.V, y.V, x.T, pos)
	case SliceV:
		// only comparison with nil is legal
		if y, ok := yv.(BytesV); ok && x.arr == nil {
			return b.Bool(y.Nil)
		}
		if y, ok := yv.(SliceV); ok {
			if y.arr == nil && x.arr == nil {
				return b.True
			}
			if y.arr == nil || x.arr == nil {
				return b.False
			}
		}
		in.unsupported("slice comparison")
	case BytesV:
		y, ok := yv.(BytesV)
		if ok && (x.Nil || y.Nil) {
			return b.Bool(x.Nil == y.Nil)
		}
		if sy, ok := yv.(SliceV); ok && sy.arr == nil {
			return b.Bool(x.Nil)
		}
		in.unsupported("[]byte comparison")
	case MapV:
		y := yv.(MapV)
		if x.m == nil || y.m == nil {
			return b.Bool(x.m == nil && y.m == nil)
		}
		in.unsupported("map comparison")
	case FuncV:
		y := yv.(FuncV)
		if x.Nil || y.Nil {
			return b.Bool(x.Nil == y.Nil)
		}
		in.unsupported("func comparison")
	case TimeV:
		y := yv.(TimeV)
		// struct equality of time.Time (loc pointers equal in this model)
		return in.timeEqual(x, y)
	case ChanV:
		y := yv.(ChanV)
		return b.Bool(x.c == y.c)
	case OpaqueV:
		if y, ok := yv.(OpaqueV); ok {
			return b.Bool(x.Tag == y.Tag && x.Data == y.Data)
		}
		return b.False
	case nil:
		return b.Bool(yv == nil)
	}
	in.unsupported("== on %T", xv)
	return nil
}

func ptrEqual(x, y PtrV) bool {
	if x.obj != y.obj {
		return false
	}
	if x.obj == nil {
		return true
	}
	if len(x.path) != len(y.path) {
		return false
	}
	for i := range x.path {
		if x.path[i].sym != nil || y.path[i].sym != nil {
			if x.path[i].sym != y.path[i].sym {
				return false
			}
			continue
		}
		if x.path[i].idx != y.path[i].idx {
			return false
		}
	}
	return true
}

// ---- conversions ----

func (in *Interp) convert(dst, src types.Type, v Value, pos token.Pos) Value {
	b := in.b
	ud, us := dst.Underlying(), src.Underlying()
	// string <-> []byte / rune
	if isString(dst) {
		switch x := v.(type) {
		case *Str:
			return x
		case BytesV:
			return x.S
		case SliceV:
			if isByteSlice(src) {
				return in.sliceToStr(x, pos)
			}
			in.unsupported("[]rune to string")
		case Sc:
			// string(rune)
			return in.runeToStr(x.T)
		}
	}
	if isByteSlice(dst) {
		switch x := v.(type) {
		case *Str:
			return BytesV{S: x}
		case BytesV, SliceV:
			return v
		}
	}
	if _, ok := ud.(*types.Slice); ok && isString(src) {
		in.unsupported("string to []rune")
	}
	switch x := v.(type) {
	case Sc:
		dw, _, dok := intWidth(dst)
		sw, ssigned, sok := intWidth(src)
		if dok && sok {
			if dw == sw {
				return x
			}
			if dw < sw {
				return Sc{b.Extract(x.T, dw-1, 0)}
			}
			if ssigned {
				return Sc{b.SExt(x.T, dw)}
			}
			return Sc{b.ZExt(x.T, dw)}
		}
		if isFloat(dst) && sok {
			return in.floatFromInt(x.T, sw, ssigned)
		}
		if dok && isFloat(src) {
			return in.floatToInt(x.T, dw)
		}
		if isFloat(dst) && isFloat(src) {
			return x
		}
		if isBoolT(dst) {
			return x
		}
	case PtrV:
		// unsafe.Pointer conversions and pointer-to-pointer
		return x
	case *StructV, *ArrayV, SliceV, MapV, FuncV, TimeV, ChanV, BytesV:
		return v
	}
	_ = us
	in.unsupported("convert %v -> %v (%T)", src, dst, v)
	return nil
}

func (in *Interp) runeToStr(r *Term) *Str {
	b := in.b
	if r.IsConst() {
		return in.str.Const(string(rune(int32(r.val))))
	}
	// ASCII only (recorded)
	in.note("ascii-runes")
	w := r.w
	if w > 8 {
		in.assume(b.ULt(r, b.BV(0x80, w)))
		return in.str.FromSym(&SymStr{Len: b.BV(1, 64), B: []*Term{b.Extract(r, 7, 0)}})
	}
	in.assume(b.ULt(r, b.BV(0x80, 8)))
	return in.str.FromSym(&SymStr{Len: b.BV(1, 64), B: []*Term{r}})
}

func (in *Interp) sliceToStr(s SliceV, pos token.Pos) *Str {
	if s.arr == nil || s.len == 0 {
		return in.str.Const("")
	}
	arr := s.arr.val.(*ArrayV)
	bs := make([]*Term, s.len)
	for i := 0; i < s.len; i++ {
		bs[i] = arr.E[s.off+i].(Sc).T
	}
	return in.str.FromSym(&SymStr{Len: in.b.BV(uint64(s.len), 64), B: bs})
}

// strToSlice materialises a string as a fresh mutable byte slice (length must be concrete).
func (in *Interp) bytesToSlice(bv BytesV, what string) SliceV {
	f := in.str.Flat(bv.S)
	n := int(in.concretize(f.Len, what))
	e := make([]Value, n)
	for i := range e {
		e[i] = Sc{f.B[i]}
	}
	o := in.newObj(&ArrayV{E: e}, types.NewArray(types.Typ[types.Uint8], int64(n)), "bytes")
	o.heap = true
	return SliceV{arr: o, len: n, cap: n}
}

// ---- indexing and slicing ----

func (in *Interp) boundsPanic(cond *Term, pos token.Pos, msg string) {
	if cond.IsFalse() {
		return
	}
	if in.branch(cond) {
		in.goPanicf(pos, "bounds", "%s", msg)
	}
}

func (in *Interp) indexAddr(fr *frame, x *ssa.IndexAddr) Value {
	b := in.b
	base := fr.get(x.X)
	idx := in.toInt64(fr.get(x.Index).(Sc).T, x.Index.Type())
	switch c := base.(type) {
	case SliceV:
		in.boundsPanic(b.Not(b.And(b.SLe(b.BV(0, 64), idx), b.SLt(idx, b.BV(uint64(c.len), 64)))), x.Pos(), "index out of range")
		if idx.IsConst() {
			return PtrV{obj: c.arr, path: []PathElem{{idx: c.off + int(idx.val)}}}
		}
		if c.off != 0 {
			idx = b.Add(idx, b.BV(uint64(c.off), 64))
		}
		idx = in.narrow(idx, uint64(c.off), uint64(c.off+c.len-1))
		return PtrV{obj: c.arr, path: []PathElem{{sym: idx, n: c.cap}}}
	case PtrV: // *array
		if c.IsNil() {
			in.goPanicf(x.Pos(), "nilderef", "invalid memory address or nil pointer dereference")
		}
		at := x.X.Type().Underlying().(*types.Pointer).Elem().Underlying().(*types.Array)
		n := at.Len()
		in.boundsPanic(b.Not(b.And(b.SLe(b.BV(0, 64), idx), b.SLt(idx, b.BV(uint64(n), 64)))), x.Pos(), "index out of range")
		np := make([]PathElem, len(c.path)+1)
		copy(np, c.path)
		if idx.IsConst() {
			np[len(c.path)] = PathElem{idx: int(idx.val)}
		} else {
			np[len(c.path)] = PathElem{sym: in.narrow(idx, 0, uint64(n-1)), n: int(n)}
		}
		return PtrV{obj: c.obj, path: np}
	case BytesV:
		// read access into an immutable byte view: materialise a private copy
		// (writes through this pointer would not be seen by other views)
		sl := in.bytesToSlice(c, "byte view length")
		in.boundsPanic(b.Not(b.And(b.SLe(b.BV(0, 64), idx), b.SLt(idx, b.BV(uint64(sl.len), 64)))), x.Pos(), "index out of range")
		if idx.IsConst() {
			return PtrV{obj: sl.arr, path: []PathElem{{idx: int(idx.val)}}}
		}
		return PtrV{obj: sl.arr, path: []PathElem{{sym: in.narrow(idx, 0, uint64(sl.len-1)), n: sl.len}}}
	}
	in.unsupported("IndexAddr on %T", base)
	return nil
}

// narrow returns a term equal to idx whose interval is clipped to [lo,hi]
// (sound because the bounds check has already excluded other values on this path).
func (in *Interp) narrow(idx *Term, lo, hi uint64) *Term {
	if idx.lo >= lo && idx.hi <= hi {
		return idx
	}
	b := in.b
	// build a clamped copy: ite(idx<lo, lo, ite(idx>hi, hi, idx))
	r := b.Ite(b.ULt(idx, b.BV(lo, idx.w)), b.BV(lo, idx.w), b.Ite(b.ULt(b.BV(hi, idx.w), idx), b.BV(hi, idx.w), idx))
	if r.op == OpIte && r != idx {
		if r.lo < lo {
			r.lo = lo
		}
		if r.hi > hi {
			r.hi = hi
		}
	}
	return r
}

func (in *Interp) toInt64(t *Term, typ types.Type) *Term {
	if t.w == 64 {
		return t
	}
	_, signed, _ := intWidth(typ)
	if signed {
		return in.b.SExt(t, 64)
	}
	return in.b.ZExt(t, 64)
}

func (in *Interp) indexOp(fr *frame, x *ssa.Index) Value {
	b := in.b
	base := fr.get(x.X)
	idx := in.toInt64(fr.get(x.Index).(Sc).T, x.Index.Type())
	switch c := base.(type) {
	case *Str:
		ln := in.str.Len(c)
		in.boundsPanic(b.Not(b.And(b.SLe(b.BV(0, 64), idx), b.SLt(idx, ln))), x.Pos(), "index out of range")
		return Sc{in.str.ByteAt(c, idx)}
	case *ArrayV:
		n := len(c.E)
		in.boundsPanic(b.Not(b.And(b.SLe(b.BV(0, 64), idx), b.SLt(idx, b.BV(uint64(n), 64)))), x.Pos(), "index out of range")
		if idx.IsConst() {
			return copyVal(c.E[idx.val])
		}
		return in.symIndexLoad(c, in.narrow(idx, 0, uint64(n-1)))
	}
	in.unsupported("Index on %T", base)
	return nil
}

func (in *Interp) sliceOp(fr *frame, x *ssa.Slice) Value {
	b := in.b
	base := fr.get(x.X)
	getIdx := func(v ssa.Value) *Term {
		if v == nil {
			return nil
		}
		return in.toInt64(fr.get(v).(Sc).T, v.Type())
	}
	lo, hi, max := getIdx(x.Low), getIdx(x.High), getIdx(x.Max)
	if lo == nil {
		lo = b.BV(0, 64)
	}
	switch c := base.(type) {
	case *Str:
		ln := in.str.Len(c)
		if hi == nil {
			hi = ln
		}
		bad := b.Not(b.And(b.SLe(b.BV(0, 64), lo), b.SLe(lo, hi), b.SLe(hi, ln)))
		in.boundsPanic(bad, x.Pos(), "slice bounds out of range")
		return in.str.Slice(c, in.narrow(lo, 0, ln.hi), in.narrow(hi, 0, ln.hi))
	case BytesV:
		ln := in.str.Len(c.S)
		if hi == nil {
			hi = ln
		}
		bad := b.Not(b.And(b.SLe(b.BV(0, 64), lo), b.SLe(lo, hi), b.SLe(hi, ln)))
		in.boundsPanic(bad, x.Pos(), "slice bounds out of range")
		return BytesV{S: in.str.Slice(c.S, in.narrow(lo, 0, ln.hi), in.narrow(hi, 0, ln.hi))}
	case SliceV:
		if hi == nil {
			hi = b.BV(uint64(c.len), 64)
		}
		capT := b.BV(uint64(c.cap), 64)
		if max == nil {
			max = capT
		}
		bad := b.Not(b.And(b.SLe(b.BV(0, 64), lo), b.SLe(lo, hi), b.SLe(hi, max), b.SLe(max, capT)))
		in.boundsPanic(bad, x.Pos(), "slice bounds out of range")
		l := int(in.concretize(lo, "slice low"))
		h := int(in.concretize(hi, "slice high"))
		m := int(in.concretize(max, "slice max"))
		if c.arr == nil {
			return SliceV{}
		}
		return SliceV{arr: c.arr, off: c.off + l, len: h - l, cap: m - l}
	case PtrV: // *array
		if c.IsNil() {
			in.goPanicf(x.Pos(), "nilderef", "slice of nil array pointer")
		}
		at := x.X.Type().Underlying().(*types.Pointer).Elem().Underlying().(*types.Array)
		n := int(at.Len())
		if hi == nil {
			hi = b.BV(uint64(n), 64)
		}
		bad := b.Not(b.And(b.SLe(b.BV(0, 64), lo), b.SLe(lo, hi), b.SLe(hi, b.BV(uint64(n), 64))))
		in.boundsPanic(bad, x.Pos(), "slice bounds out of range")
		l := int(in.concretize(lo, "slice low"))
		h := int(in.concretize(hi, "slice high"))
		if len(c.path) != 0 {
			// array nested in a struct: wrap as an object view is not possible; copy-free view unsupported
			in.unsupported("slice of nested array")
		}
		return SliceV{arr: c.obj, off: l, len: h - l, cap: n - l}
	}
	in.unsupported("Slice on %T", base)
	return nil
}

func (in *Interp) typeAssert(fr *frame, x *ssa.TypeAssert) Value {
	v := fr.get(x.X)
	iv, ok := v.(IfaceV)
	if !ok {
		in.unsupported("type assert on %T", v)
	}
	okv := false
	if iv.T != nil {
		if types.IsInterface(x.AssertedType) {
			okv = types.AssignableTo(iv.T, x.AssertedType) || types.Implements(iv.T, x.AssertedType.Underlying().(*types.Interface))
		} else {
			okv = types.Identical(iv.T, x.AssertedType)
		}
	}
	var res Value
	if okv {
		if types.IsInterface(x.AssertedType) {
			res = iv
		} else {
			res = iv.V
		}
	} else {
		res = in.zero(x.AssertedType)
	}
	if x.CommaOk {
		return TupleV{E: []Value{res, Sc{in.b.Bool(okv)}}}
	}
	if !okv {
		in.goPanicf(x.Pos(), "typeassert", "interface conversion: %v is not %v", iv.T, x.AssertedType)
	}
	return res
}

// ---- builtins ----

func (in *Interp) callBuiltinValue(caller *frame, f FuncV, args []Value, pos token.Pos) Value {
	b := in.b
	switch f.Builtin {
	case "builtin:len":
		switch x := args[0].(type) {
		case *Str:
			return Sc{in.str.Len(x)}
		case BytesV:
			return Sc{in.str.Len(x.S)}
		case SliceV:
			return Sc{b.BV(uint64(x.len), 64)}
		case MapV:
			return Sc{in.mapLen(x)}
		case *ArrayV:
			return Sc{b.BV(uint64(len(x.E)), 64)}
		case PtrV:
			if a, ok := x.obj.typ.Underlying().(*types.Array); ok {
				return Sc{b.BV(uint64(a.Len()), 64)}
			}
		case ChanV:
			if x.c == nil {
				return Sc{b.BV(0, 64)}
			}
			return Sc{b.BV(uint64(len(x.c.buf)), 64)}
		}
		in.unsupported("len(%T)", args[0])
	case "builtin:cap":
		switch x := args[0].(type) {
		case SliceV:
			return Sc{b.BV(uint64(x.cap), 64)}
		case BytesV:
			return Sc{in.str.Len(x.S)}
		case *ArrayV:
			return Sc{b.BV(uint64(len(x.E)), 64)}
		}
		in.unsupported("cap(%T)", args[0])
	case "builtin:append":
		return in.appendOp(args[0], args[1], pos)
	case "builtin:copy":
		return in.copyOp(args[0], args[1], pos)
	case "builtin:delete":
		in.mapDelete(args[0], args[1])
		return nil
	case "builtin:print", "builtin:println":
		return nil
	case "builtin:recover":
		// caller is the deferred function's frame; its caller is the panicking frame
		if caller != nil && caller.caller != nil && caller.caller.status == stPanic {
			pf := caller.caller
			pf.status = stRunning
			gp := pf.panicVal
			pf.panicVal = nil
			// mark as recovered: runDefers checks status
			pf.status = stRunning
			return gp.val
		}
		return IfaceV{}
	case "builtin:min", "builtin:max":
		in.unsupported("min/max builtin")
	case "builtin:close":
		c := args[0].(ChanV)
		if c.c == nil || c.c.closed {
			in.goPanicf(pos, "close", "close of nil or closed channel")
		}
		c.c.closed = true
		return nil
	case "builtin:ssa:wrapnilchk":
		p := args[0].(PtrV)
		if p.IsNil() {
			in.goPanicf(pos, "nilderef", "value method called using nil pointer")
		}
		return p
	}
	if f.Builtin == "lenientmethod" {
		sig := f.Recv.(*types.Signature)
		res := sig.Results()
		switch res.Len() {
		case 0:
			return nil
		case 1:
			return in.zero(res.At(0).Type())
		}
		return in.zero(res)
	}
	if h, ok := modelMethods[f.Builtin]; ok {
		if f.Builtin == "model:ctxnode.cancel" {
			if ov, ok := f.Recv.(OpaqueV); ok {
				in.cancelTarget, _ = ov.Data.(*ctxNode)
			}
		}
		return h(in, caller, nil, args, pos)
	}
	in.unsupported("builtin %s", f.Builtin)
	return nil
}

func (in *Interp) appendOp(dst, src Value, pos token.Pos) Value {
	// []byte forms
	if db, ok := dst.(BytesV); ok {
		switch s := src.(type) {
		case BytesV:
			return BytesV{S: in.str.Concat(db.S, s.S)}
		case *Str:
			return BytesV{S: in.str.Concat(db.S, s)}
		case SliceV:
			if s.arr == nil || s.len == 0 {
				return db
			}
			return BytesV{S: in.str.Concat(db.S, in.sliceToStr(s, pos))}
		}
	}
	d, ok := dst.(SliceV)
	if !ok {
		in.unsupported("append to %T", dst)
	}
	var elems []Value
	switch s := src.(type) {
	case SliceV:
		if s.arr != nil {
			arr := s.arr.val.(*ArrayV)
			for i := 0; i < s.len; i++ {
				elems = append(elems, copyVal(arr.E[s.off+i]))
			}
		}
	case *Str, BytesV:
		var st *Str
		if x, ok := s.(*Str); ok {
			st = x
		} else {
			st = s.(BytesV).S
		}
		if d.arr == nil && d.len == 0 {
			return BytesV{S: st}
		}
		if d.len == d.cap {
			// the result must be a fresh array anyway: keep the appended bytes as a rope
			return BytesV{S: in.str.Concat(in.sliceToStr(d, pos), st)}
		}
		f := in.str.Flat(st)
		n := int(in.concretize(f.Len, "append string len"))
		for i := 0; i < n; i++ {
			elems = append(elems, Sc{f.B[i]})
		}
	default:
		in.unsupported("append from %T", src)
	}
	if len(elems) == 0 {
		return d
	}
	need := d.len + len(elems)
	if d.arr != nil && need <= d.cap {
		arr := d.arr.val.(*ArrayV)
		for i, e := range elems {
			arr.E[d.off+d.len+i] = e
		}
		return SliceV{arr: d.arr, off: d.off, len: need, cap: d.cap}
	}
	newcap := d.cap * 2
	if newcap < need {
		newcap = need
	}
	var et types.Type
	e := make([]Value, newcap)
	if d.arr != nil {
		old := d.arr.val.(*ArrayV)
		for i := 0; i < d.len; i++ {
			e[i] = copyVal(old.E[d.off+i])
		}
		et = d.arr.typ.Underlying().(*types.Array).Elem()
		if b, ok := et.(*types.Basic); ok && b.Kind() == types.Invalid {
			et = nil
		}
	}
	for i, v := range elems {
		e[d.len+i] = v
	}
	for i := need; i < newcap; i++ {
		if et != nil {
			e[i] = in.zero(et)
		} else {
			e[i] = zeroLike(in, elems[0])
		}
	}
	var at types.Type
	if et != nil {
		at = types.NewArray(et, int64(newcap))
	} else {
		at = types.NewArray(types.Typ[types.Invalid], int64(newcap))
	}
	o := in.newObj(&ArrayV{E: e}, at, in.posStr(pos)+":append")
	o.heap = true
	return SliceV{arr: o, off: 0, len: need, cap: newcap}
}

// zeroLike builds a zero value shaped like v (used when the element type is not at hand).
func zeroLike(in *Interp, v Value) Value {
	switch x := v.(type) {
	case Sc:
		if x.T.w == 0 {
			return Sc{in.b.False}
		}
		return Sc{in.b.BV(0, x.T.w)}
	case *Str:
		return in.str.Const("")
	case PtrV:
		return PtrV{}
	case *StructV:
		f := make([]Value, len(x.F))
		for i := range f {
			f[i] = zeroLike(in, x.F[i])
		}
		return &StructV{F: f}
	case *ArrayV:
		e := make([]Value, len(x.E))
		for i := range e {
			e[i] = zeroLike(in, x.E[i])
		}
		return &ArrayV{E: e}
	case SliceV:
		return SliceV{}
	case BytesV:
		return BytesV{Nil: true, S: in.str.Const("")}
	case MapV:
		return MapV{}
	case IfaceV:
		return IfaceV{}
	case FuncV:
		return FuncV{Nil: true}
	case TimeV:
		return TimeV{Kind: TimeZero, V: in.b.BV(0, 64)}
	}
	return nil
}

func (in *Interp) copyOp(dst, src Value, pos token.Pos) Value {
	b := in.b
	d, ok := dst.(SliceV)
	if !ok {
		in.unsupported("copy into %T", dst)
	}
	switch s := src.(type) {
	case SliceV:
		n := d.len
		if s.len < n {
			n = s.len
		}
		if n > 0 {
			da, sa := d.arr.val.(*ArrayV), s.arr.val.(*ArrayV)
			tmp := make([]Value, n)
			for i := 0; i < n; i++ {
				tmp[i] = copyVal(sa.E[s.off+i])
			}
			for i := 0; i < n; i++ {
				da.E[d.off+i] = tmp[i]
			}
		}
		return Sc{b.BV(uint64(n), 64)}
	case *Str, BytesV:
		var st *Str
		if x, ok := s.(*Str); ok {
			st = x
		} else {
			st = s.(BytesV).S
		}
		f := in.str.Flat(st)
		// n = min(len(dst), len(src)); guarded writes
		dl := b.BV(uint64(d.len), 64)
		n := b.Ite(b.ULt(f.Len, dl), f.Len, dl)
		if d.len > 0 {
			da := d.arr.val.(*ArrayV)
			for i := 0; i < d.len && i < len(f.B); i++ {
				old := da.E[d.off+i].(Sc).T
				da.E[d.off+i] = Sc{b.Ite(b.ULt(b.BV(uint64(i), 64), f.Len), f.B[i], old)}
			}
		}
		return Sc{n}
	}
	in.unsupported("copy from %T", src)
	return nil
}

// ---- floats (opaque) ----

func (in *Interp) floatUF(name string, args ...*Term) Value {
	return Sc{in.uf(name, 64, args...)}
}

func (in *Interp) floatBin(op token.Token, x, y *Term) Value {
	if x.IsConst() && y.IsConst() {
		fx, fy := math.Float64frombits(x.val), math.Float64frombits(y.val)
		switch op {
		case token.ADD:
			return Sc{in.b.BV(math.Float64bits(fx+fy), 64)}
		case token.SUB:
			return Sc{in.b.BV(math.Float64bits(fx-fy), 64)}
		case token.MUL:
			return Sc{in.b.BV(math.Float64bits(fx*fy), 64)}
		case token.QUO:
			return Sc{in.b.BV(math.Float64bits(fx/fy), 64)}
		case token.LSS:
			return Sc{in.b.Bool(fx < fy)}
		case token.LEQ:
			return Sc{in.b.Bool(fx <= fy)}
		case token.GTR:
			return Sc{in.b.Bool(fx > fy)}
		case token.GEQ:
			return Sc{in.b.Bool(fx >= fy)}
		}
	}
	switch op {
	case token.LSS, token.LEQ, token.GTR, token.GEQ:
		return Sc{in.uf("fcmp"+op.String(), 0, x, y)}
	}
	return Sc{in.uf("f"+op.String(), 64, x, y)}
}

func (in *Interp) floatFromInt(x *Term, w uint8, signed bool) Value {
	if x.IsConst() {
		if signed {
			return Sc{in.b.BV(math.Float64bits(float64(signExt(x.val, w))), 64)}
		}
		return Sc{in.b.BV(math.Float64bits(float64(x.val)), 64)}
	}
	return Sc{in.uf(fmt.Sprintf("i2f%d", w), 64, x)}
}

func (in *Interp) floatToInt(x *Term, w uint8) Value {
	if x.IsConst() {
		return Sc{in.b.BV(uint64(int64(math.Float64frombits(x.val))), w)}
	}
	return Sc{in.uf(fmt.Sprintf("f2i%d", w), w, x)}
}
