package main

import (
	"sort"
	"encoding/hex"
	"fmt"
	"go/types"
	"regexp/syntax"
	"strconv"
	"strings"

	"golang.org/x/tools/go/ssa"
)

func scBool(in *Interp, t *Term) Value { return Sc{t} }

func registerStrings(e *Engine) {
	reg := func(name string, f IntrinsicFn) { e.intr[name] = f }
	s2 := func(f func(in *Interp, a, b *Str) Value) IntrinsicFn {
		return func(in *Interp, _ *frame, _ *ssa.Function, args []Value, pos tokenPos) Value {
			return f(in, in.toStrArg(args[0], pos), in.toStrArg(args[1], pos))
		}
	}
	reg("strings.ToLower", func(in *Interp, _ *frame, _ *ssa.Function, args []Value, _ tokenPos) Value {
		s := args[0].(*Str)
		in.assumeASCII(s)
		return in.str.ToLower(s)
	})
	reg("strings.ToUpper", func(in *Interp, _ *frame, _ *ssa.Function, args []Value, _ tokenPos) Value {
		s := args[0].(*Str)
		in.assumeASCII(s)
		return in.str.ToUpper(s)
	})
	reg("strings.HasPrefix", s2(func(in *Interp, a, b *Str) Value { return Sc{in.str.HasPrefix(a, b)} }))
	reg("strings.HasSuffix", s2(func(in *Interp, a, b *Str) Value { return Sc{in.str.HasSuffix(a, b)} }))
	reg("bytes.HasPrefix", s2(func(in *Interp, a, b *Str) Value { return Sc{in.str.HasPrefix(a, b)} }))
	reg("strings.Contains", s2(func(in *Interp, a, b *Str) Value { return Sc{in.str.Contains(a, b)} }))
	reg("strings.Index", s2(func(in *Interp, a, b *Str) Value { return Sc{in.str.Index(a, b)} }))
	reg("bytes.Equal", s2(func(in *Interp, a, b *Str) Value { return Sc{in.str.Eq(a, b)} }))
	reg("crypto/hmac.Equal", s2(func(in *Interp, a, b *Str) Value { return Sc{in.str.Eq(a, b)} }))
	reg("crypto/subtle.ConstantTimeCompare", s2(func(in *Interp, a, b *Str) Value {
		return Sc{in.b.Ite(in.str.Eq(a, b), in.b.BV(1, 64), in.b.BV(0, 64))}
	}))
	reg("strings.Count", s2(func(in *Interp, a, p *Str) Value {
		pc, ok := p.Concrete()
		if x, ok2 := a.Concrete(); ok && ok2 {
			return Sc{in.b.BV(uint64(strings.Count(x, pc)), 64)}
		}
		if !ok || len(pc) != 1 {
			in.unsupported("strings.Count with non single-byte constant separator")
		}
		return Sc{in.b.ZExt(in.str.CountByte(a, pc[0]), 64)}
	}))
	reg("strings.Repeat", func(in *Interp, _ *frame, _ *ssa.Function, args []Value, _ tokenPos) Value {
		x, ok := args[0].(*Str).Concrete()
		n := args[1].(Sc).T
		if !ok || !n.IsConst() || int64(n.val) < 0 || int64(n.val)*int64(len(x)) > 1<<16 {
			in.unsupported("strings.Repeat with symbolic arguments")
		}
		return in.str.Const(strings.Repeat(x, int(n.val)))
	})
	reg("strings.TrimPrefix", s2(func(in *Interp, a, p *Str) Value {
		if x, ok := a.Concrete(); ok {
			if y, ok2 := p.Concrete(); ok2 {
				return in.str.Const(strings.TrimPrefix(x, y))
			}
		}
		pc, ok := p.Concrete()
		if !ok {
			in.unsupported("strings.TrimPrefix with symbolic prefix")
		}
		has := in.str.HasPrefix(a, p)
		if has.IsFalse() {
			return a
		}
		ln := in.str.Len(a)
		lo := in.b.Ite(has, in.b.BV(uint64(len(pc)), 64), in.b.BV(0, 64))
		return in.str.Slice(a, lo, ln)
	}))
	reg("strings.EqualFold", s2(func(in *Interp, a, c *Str) Value {
		in.assumeASCII(a)
		in.assumeASCII(c)
		return Sc{in.str.Eq(in.str.ToLower(a), in.str.ToLower(c))}
	}))
	idxByte := func(in *Interp, _ *frame, _ *ssa.Function, args []Value, _ tokenPos) Value {
		return Sc{in.str.IndexByte(args[0].(*Str), args[1].(Sc).T)}
	}
	reg("strings.IndexByte", idxByte)
	reg("gopkg.in/sorcix/irc.v2/internal.IndexByte", idxByte)
	reg("strings.IndexAny", func(in *Interp, _ *frame, _ *ssa.Function, args []Value, _ tokenPos) Value {
		b := in.b
		s := args[0].(*Str)
		chars, ok := args[1].(*Str).Concrete()
		if !ok {
			in.unsupported("strings.IndexAny with symbolic charset")
		}
		f := in.str.Flat(s)
		res := b.BV(^uint64(0), 64)
		for i := len(f.B) - 1; i >= 0; i-- {
			var any []*Term
			for j := 0; j < len(chars); j++ {
				any = append(any, b.Eq(f.B[i], b.BV(uint64(chars[j]), 8)))
			}
			hit := b.And(b.ULt(b.BV(uint64(i), 64), f.Len), b.Or(any...))
			res = b.Ite(hit, b.BV(uint64(i), 64), res)
		}
		return Sc{res}
	})
	reg("strings.Join", func(in *Interp, _ *frame, _ *ssa.Function, args []Value, _ tokenPos) Value {
		sl := args[0].(SliceV)
		sep := args[1].(*Str)
		var parts []*Str
		if sl.arr != nil {
			arr := sl.arr.val.(*ArrayV)
			for i := 0; i < sl.len; i++ {
				if i > 0 {
					parts = append(parts, sep)
				}
				parts = append(parts, arr.E[sl.off+i].(*Str))
			}
		}
		return in.str.Concat(parts...)
	})
	reg("strings.Split", func(in *Interp, _ *frame, _ *ssa.Function, args []Value, _ tokenPos) Value {
		return in.splitStr(args[0].(*Str), args[1].(*Str))
	})
	reg("strings.TrimSpace", func(in *Interp, _ *frame, _ *ssa.Function, args []Value, _ tokenPos) Value {
		b := in.b
		s := args[0].(*Str)
		if c, ok := s.Concrete(); ok {
			return in.str.Const(strings.TrimSpace(c))
		}
		in.assumeASCII(s)
		return in.trimPred(s, func(t *Term) *Term {
			return b.Or(b.Eq(t, b.BV(' ', 8)), in.str.inRange(t, 9, 13))
		})
	})
	reg("strings.TrimFunc", func(in *Interp, caller *frame, _ *ssa.Function, args []Value, pos tokenPos) Value {
		b := in.b
		s := args[0].(*Str)
		f := args[1]
		in.assumeASCII(s)
		return in.trimPred(s, func(t *Term) *Term {
			r := in.callValue(caller, f, []Value{Sc{b.ZExt(t, 32)}}, pos)
			return r.(Sc).T
		})
	})
	reg("strings.Replace", func(in *Interp, _ *frame, _ *ssa.Function, args []Value, _ tokenPos) Value {
		s, old, nw := args[0].(*Str), args[1].(*Str), args[2].(*Str)
		if c, ok := s.Concrete(); ok {
			if o, ok2 := old.Concrete(); ok2 {
				if n, ok3 := nw.Concrete(); ok3 && args[3].(Sc).T.IsConst() {
					return in.str.Const(strings.Replace(c, o, n, int(int64(args[3].(Sc).T.val))))
				}
			}
		}
		if o, ok := old.Concrete(); ok && o != "" {
			if n, ok2 := nw.Concrete(); ok2 && args[3].(Sc).T.IsConst() && int64(args[3].(Sc).T.val) < 0 && s.Cap() <= 64 {
				return in.str.ReplaceConst(s, o, n)
			}
		}
		var pred func(*Term) *Term
		// cleanliness is preserved when the replacement is clean: carried as an
		// axiom only when input and replacement are provably clean
		return in.ufStr("strings.Replace", 0, 2*s.Cap()+2, pred, []*Str{s, old, nw}, nil)
	})
	reg("strings.NewReplacer", func(in *Interp, _ *frame, _ *ssa.Function, args []Value, _ tokenPos) Value {
		sl := args[0].(SliceV)
		var pairs []string
		if sl.arr != nil {
			arr := sl.arr.val.(*ArrayV)
			for i := 0; i < sl.len; i++ {
				c, ok := arr.E[sl.off+i].(*Str).Concrete()
				if !ok || len(c) != 1 {
					in.unsupported("strings.NewReplacer with non single-byte constant pairs")
				}
				pairs = append(pairs, c)
			}
		}
		o := in.newObj(OpaqueV{Tag: "replacer", Data: pairs}, nil, "replacer")
		return PtrV{obj: o}
	})
	reg("(*strings.Replacer).Replace", func(in *Interp, _ *frame, _ *ssa.Function, args []Value, _ tokenPos) Value {
		b := in.b
		pairs := args[0].(PtrV).obj.val.(OpaqueV).Data.([]string)
		s := args[1].(*Str)
		return in.str.MapBytes(s, func(c byte) byte {
			for i := 0; i+1 < len(pairs); i += 2 {
				if pairs[i][0] == c {
					return pairs[i+1][0]
				}
			}
			return c
		}, func(t *Term) *Term {
			res := t
			for i := len(pairs) - 2; i >= 0; i -= 2 {
				res = b.Ite(b.Eq(t, b.BV(uint64(pairs[i][0]), 8)), b.BV(uint64(pairs[i+1][0]), 8), res)
			}
			return res
		})
	})

	// strconv
	reg("strconv.Itoa", func(in *Interp, _ *frame, _ *ssa.Function, args []Value, _ tokenPos) Value {
		return in.fmtInt(args[0].(Sc).T, true, 10)
	})
	reg("strconv.FormatInt", func(in *Interp, _ *frame, _ *ssa.Function, args []Value, _ tokenPos) Value {
		base := args[1].(Sc).T
		if !base.IsConst() {
			in.unsupported("FormatInt symbolic base")
		}
		return in.fmtInt(args[0].(Sc).T, true, int(base.val))
	})
	reg("strconv.FormatUint", func(in *Interp, _ *frame, _ *ssa.Function, args []Value, _ tokenPos) Value {
		base := args[1].(Sc).T
		if !base.IsConst() {
			in.unsupported("FormatUint symbolic base")
		}
		return in.fmtInt(args[0].(Sc).T, false, int(base.val))
	})
	parseInt := func(signed bool) IntrinsicFn {
		return func(in *Interp, _ *frame, fn *ssa.Function, args []Value, _ tokenPos) Value {
			b := in.b
			s := args[0].(*Str)
			if c, ok := s.Concrete(); ok && args[1].(Sc).T.IsConst() && args[2].(Sc).T.IsConst() {
				base, bits := int(args[1].(Sc).T.val), int(args[2].(Sc).T.val)
				if signed {
					v, err := strconv.ParseInt(c, base, bits)
					if err != nil {
						return TupleV{E: []Value{Sc{b.BV(uint64(v), 64)}, in.newError(in.str.Const(err.Error()))}}
					}
					return TupleV{E: []Value{Sc{b.BV(uint64(v), 64)}, IfaceV{}}}
				}
				v, err := strconv.ParseUint(c, base, bits)
				if err != nil {
					return TupleV{E: []Value{Sc{b.BV(v, 64)}, in.newError(in.str.Const(err.Error()))}}
				}
				return TupleV{E: []Value{Sc{b.BV(v, 64)}, IfaceV{}}}
			}
			name := "strconv.ParseUint"
			if signed {
				name = "strconv.ParseInt"
			}
			keys := append(in.strTerms(s), args[1].(Sc).T)
			ok := in.uf(name+".ok", 0, keys...)
			val := in.uf(name+".val", 64, keys...)
			// an empty string never parses
			in.constrain(b.Implies(b.Eq(in.str.Len(s), b.BV(0, 64)), b.Not(ok)))
			if in.branch(ok) {
				return TupleV{E: []Value{Sc{val}, IfaceV{}}}
			}
			return TupleV{E: []Value{Sc{b.BV(0, 64)}, in.newError(in.str.Const(name + ": parsing: invalid syntax"))}}
		}
	}
	reg("strconv.ParseInt", parseInt(true))
	reg("strconv.ParseUint", parseInt(false))
	reg("strconv.Atoi", func(in *Interp, c *frame, fn *ssa.Function, args []Value, pos tokenPos) Value {
		return parseInt(true)(in, c, fn, []Value{args[0], Sc{in.b.BV(10, 64)}, Sc{in.b.BV(64, 64)}}, pos)
	})
	reg("strconv.Quote", func(in *Interp, _ *frame, _ *ssa.Function, args []Value, _ tokenPos) Value {
		return in.quoteStr(args[0].(*Str))
	})

	// bytes.Buffer model
	bufOf := func(in *Interp, v Value) *bufModel {
		p := v.(PtrV)
		if p.IsNil() {
			in.goPanicf(0, "nilderef", "nil *bytes.Buffer")
		}
		cell := in.load(p, 0)
		return cell.(OpaqueV).Data.(*bufModel)
	}
	for _, pre := range []string{"(*bytes.Buffer)", "(*strings.Builder)"} {
		reg(pre+".WriteString", func(in *Interp, _ *frame, _ *ssa.Function, args []Value, _ tokenPos) Value {
			bm := bufOf(in, args[0])
			s := args[1].(*Str)
			bm.s = in.str.Concat(bm.s, s)
			return TupleV{E: []Value{Sc{in.str.Len(s)}, IfaceV{}}}
		})
		reg(pre+".Write", func(in *Interp, _ *frame, _ *ssa.Function, args []Value, pos tokenPos) Value {
			bm := bufOf(in, args[0])
			s := in.toStrArg(args[1], pos)
			bm.s = in.str.Concat(bm.s, s)
			return TupleV{E: []Value{Sc{in.str.Len(s)}, IfaceV{}}}
		})
		reg(pre+".WriteByte", func(in *Interp, _ *frame, _ *ssa.Function, args []Value, _ tokenPos) Value {
			bm := bufOf(in, args[0])
			c := args[1].(Sc).T
			bm.s = in.str.Concat(bm.s, in.str.FromSym(&SymStr{Len: in.b.BV(1, 64), B: []*Term{c}}))
			return IfaceV{}
		})
		reg(pre+".WriteRune", func(in *Interp, _ *frame, _ *ssa.Function, args []Value, _ tokenPos) Value {
			bm := bufOf(in, args[0])
			s := in.runeToStr(args[1].(Sc).T)
			bm.s = in.str.Concat(bm.s, s)
			return TupleV{E: []Value{Sc{in.str.Len(s)}, IfaceV{}}}
		})
		reg(pre+".Len", func(in *Interp, _ *frame, _ *ssa.Function, args []Value, _ tokenPos) Value {
			return Sc{in.str.Len(bufOf(in, args[0]).s)}
		})
		reg(pre+".String", func(in *Interp, _ *frame, _ *ssa.Function, args []Value, _ tokenPos) Value {
			return bufOf(in, args[0]).s
		})
		reg(pre+".Bytes", func(in *Interp, _ *frame, _ *ssa.Function, args []Value, _ tokenPos) Value {
			return BytesV{S: bufOf(in, args[0]).s}
		})
		reg(pre+".Reset", func(in *Interp, _ *frame, _ *ssa.Function, args []Value, _ tokenPos) Value {
			bufOf(in, args[0]).s = &Str{}
			return nil
		})
		reg(pre+".Truncate", func(in *Interp, _ *frame, _ *ssa.Function, args []Value, _ tokenPos) Value {
			bm := bufOf(in, args[0])
			n := args[1].(Sc).T
			bm.s = in.str.Slice(bm.s, in.b.BV(0, 64), n)
			return nil
		})
	}
	reg("bytes.NewBuffer", func(in *Interp, _ *frame, _ *ssa.Function, args []Value, pos tokenPos) Value {
		s := &Str{}
		switch x := args[0].(type) {
		case BytesV:
			s = x.S
		case SliceV:
			s = in.sliceToStr(x, pos)
		}
		o := in.newObj(OpaqueV{Tag: "bytes.Buffer", Data: &bufModel{s: s}}, nil, "bytes.Buffer")
		o.heap = true
		return PtrV{obj: o}
	})
	reg("bytes.NewBufferString", func(in *Interp, _ *frame, _ *ssa.Function, args []Value, pos tokenPos) Value {
		o := in.newObj(OpaqueV{Tag: "bytes.Buffer", Data: &bufModel{s: args[0].(*Str)}}, nil, "bytes.Buffer")
		o.heap = true
		return PtrV{obj: o}
	})

	// sort
	reg("sort.Strings", func(in *Interp, _ *frame, _ *ssa.Function, args []Value, _ tokenPos) Value {
		sl := args[0].(SliceV)
		if sl.arr == nil || sl.len < 2 {
			return nil
		}
		arr := sl.arr.val.(*ArrayV)
		// the sorted result depends only on the multiset of elements: bring the inputs into a
		// canonical order (by term identity) first, so that two executions that collected the
		// same strings in different orders build the very same terms
		{
			els := make([]*Str, sl.len)
			keys := make([]string, sl.len)
			for k := 0; k < sl.len; k++ {
				els[k] = arr.E[sl.off+k].(*Str)
				keys[k] = in.strKey(els[k])
			}
			idx := make([]int, sl.len)
			for k := range idx {
				idx[k] = k
			}
			sort.SliceStable(idx, func(x, y int) bool { return keys[idx[x]] < keys[idx[y]] })
			for k := 0; k < sl.len; k++ {
				arr.E[sl.off+k] = els[idx[k]]
			}
		}
		// bubble network of compare-exchange steps: no forks; each step merges with ite
		for i := 0; i < sl.len; i++ {
			for j := 0; j+1 < sl.len-i; j++ {
				a, c := arr.E[sl.off+j].(*Str), arr.E[sl.off+j+1].(*Str)
				lt := in.str.Lt(c, a)
				if lt.IsFalse() {
					continue
				}
				if lt.IsTrue() {
					arr.E[sl.off+j], arr.E[sl.off+j+1] = c, a
					continue
				}
				if a.Cap() > 48 || c.Cap() > 48 {
					// long strings: fork instead of building wide ites
					if in.branch(lt) {
						arr.E[sl.off+j], arr.E[sl.off+j+1] = c, a
					}
					continue
				}
				arr.E[sl.off+j] = in.str.Ite(lt, c, a)
				arr.E[sl.off+j+1] = in.str.Ite(lt, a, c)
			}
		}
		return nil
	})
	reg("sort.Slice", func(in *Interp, caller *frame, _ *ssa.Function, args []Value, pos tokenPos) Value {
		iv := args[0].(IfaceV)
		sl, ok := iv.V.(SliceV)
		if !ok || sl.arr == nil || sl.len < 2 {
			return nil
		}
		arr := sl.arr.val.(*ArrayV)
		mk := func(i int) Value { return Sc{in.b.BV(uint64(i), 64)} }
		// insertion sort driven by the caller's less function (forks on undecided comparisons)
		for i := 1; i < sl.len; i++ {
			for j := i; j > 0; j-- {
				r := in.callValue(caller, args[1], []Value{mk(j), mk(j - 1)}, pos)
				if in.branch(r.(Sc).T) {
					arr.E[sl.off+j], arr.E[sl.off+j-1] = arr.E[sl.off+j-1], arr.E[sl.off+j]
				} else {
					break
				}
			}
		}
		in.note("sort.Slice modelled as insertion sort (order of elements that compare equal may differ from pdqsort)")
		return nil
	})
	reg("sort.Sort", func(in *Interp, caller *frame, _ *ssa.Function, args []Value, pos tokenPos) Value {
		iv := args[0].(IfaceV)
		call := func(name string, a ...Value) Value {
			f := in.eng.prog.LookupMethod(iv.T, nil, name)
			if f == nil {
				in.unsupported("sort.Sort: no method %s", name)
			}
			return in.callSSA(caller, f, append([]Value{iv.V}, a...), nil, pos)
		}
		n := int(in.concretize(call("Len").(Sc).T, "sort len"))
		mk := func(i int) Value { return Sc{in.b.BV(uint64(i), 64)} }
		for i := 1; i < n; i++ {
			for j := i; j > 0; j-- {
				if in.branch(call("Less", mk(j), mk(j-1)).(Sc).T) {
					call("Swap", mk(j), mk(j-1))
				} else {
					break
				}
			}
		}
		in.note("sort.Sort modelled as insertion sort (result order of Less-equal elements may differ from pdqsort)")
		return nil
	})

	// regexp
	reg("regexp.MustCompile", func(in *Interp, _ *frame, _ *ssa.Function, args []Value, pos tokenPos) Value {
		p, ok := args[0].(*Str).Concrete()
		if !ok {
			in.unsupported("regexp.MustCompile on symbolic pattern")
		}
		return in.newRegexp(p, args[0].(*Str), pos)
	})
	reg("regexp.Compile", func(in *Interp, _ *frame, _ *ssa.Function, args []Value, pos tokenPos) Value {
		ps := args[0].(*Str)
		if p, ok := ps.Concrete(); ok {
			if _, err := syntax.Parse(p, syntax.Perl); err != nil {
				return TupleV{E: []Value{PtrV{}, in.newError(in.str.Const(err.Error()))}}
			}
			return TupleV{E: []Value{in.newRegexp(p, ps, pos), IfaceV{}}}
		}
		if r, found := in.lookupInverse(ps, "re"); found {
			cp := *r.re
			o := in.newObj(OpaqueV{Tag: "regexp", Data: &cp}, nil, "regexp")
			o.heap = true
			return TupleV{E: []Value{PtrV{obj: o}, IfaceV{}}}
		}
		ok := in.uf("regexp.Compile.ok", 0, in.strTerms(ps)...)
		if in.branch(ok) {
			o := in.newObj(OpaqueV{Tag: "regexp", Data: &reModel{pat: ps}}, nil, "regexp")
			o.heap = true
			return TupleV{E: []Value{PtrV{obj: o}, IfaceV{}}}
		}
		return TupleV{E: []Value{PtrV{}, in.newError(in.str.Const("error parsing regexp"))}}
	})
	reg("(*regexp.Regexp).MatchString", func(in *Interp, _ *frame, _ *ssa.Function, args []Value, pos tokenPos) Value {
		p := args[0].(PtrV)
		if p.IsNil() {
			in.goPanicf(pos, "nilderef", "nil *regexp.Regexp")
		}
		rm := p.obj.val.(OpaqueV).Data.(*reModel)
		s := args[1].(*Str)
		return Sc{in.reMatch(rm, s)}
	})
	reg("(*regexp.Regexp).String", func(in *Interp, _ *frame, _ *ssa.Function, args []Value, pos tokenPos) Value {
		p := args[0].(PtrV)
		if p.IsNil() {
			in.goPanicf(pos, "nilderef", "nil *regexp.Regexp")
		}
		rm := p.obj.val.(OpaqueV).Data.(*reModel)
		if rm.alt != nil {
			res := in.str.Ite(rm.sel, rm.pat, rm.alt.pat)
			// compiling this text again yields the same choice of expressions
			in.regInverse(res, invRec{kind: "re", re: rm})
			return res
		}
		return rm.pat
	})
	reg("regexp.QuoteMeta", func(in *Interp, _ *frame, _ *ssa.Function, args []Value, _ tokenPos) Value {
		s := args[0].(*Str)
		if c, ok := s.Concrete(); ok {
			return in.str.Const(regexpQuoteMeta(c))
		}
		return in.ufStr("regexp.QuoteMeta", 0, 2*s.Cap(), nil, []*Str{s}, nil)
	})

	// base64 / hex
	reg("(*encoding/base64.Encoding).EncodeToString", func(in *Interp, _ *frame, _ *ssa.Function, args []Value, pos tokenPos) Value {
		s := in.toStrArg(args[1], pos)
		n := s.Cap()
		res := in.ufStr("base64.enc", 0, (n+2)/3*4, in.isCleanByte, []*Str{s}, nil)
		in.regInverse(res, invRec{kind: "b64", s: s})
		return res
	})
	reg("(*encoding/base64.Encoding).DecodeString", func(in *Interp, _ *frame, _ *ssa.Function, args []Value, pos tokenPos) Value {
		s := args[1].(*Str)
		if r, found := in.lookupInverse(s, "b64"); found {
			// DecodeString(EncodeToString(x)) == x
			return TupleV{E: []Value{BytesV{S: r.s}, IfaceV{}}}
		}
		ok := in.uf("base64.dec.ok", 0, in.strTerms(s)...)
		if in.branch(ok) {
			d := in.ufStr("base64.dec", 0, s.Cap(), nil, []*Str{s}, nil)
			return TupleV{E: []Value{BytesV{S: d}, IfaceV{}}}
		}
		return TupleV{E: []Value{BytesV{Nil: true, S: &Str{}}, in.newError(in.str.Const("illegal base64 data"))}}
	})
	reg("encoding/hex.EncodeToString", func(in *Interp, _ *frame, _ *ssa.Function, args []Value, pos tokenPos) Value {
		s := in.toStrArg(args[0], pos)
		if c, ok := s.Concrete(); ok {
			return in.str.Const(hex.EncodeToString([]byte(c)))
		}
		res := in.ufStr("hex.enc", 0, 2*s.Cap(), in.isCleanByte, []*Str{s}, nil)
		// the encoding of an empty input is empty
		in.constrain(in.b.Eq(in.b.Eq(in.str.Len(s), in.b.BV(0, 64)), in.b.Eq(in.str.Len(res), in.b.BV(0, 64))))
		in.regInverse(res, invRec{kind: "hex", s: s})
		return res
	})
	reg("encoding/hex.DecodeString", func(in *Interp, _ *frame, _ *ssa.Function, args []Value, pos tokenPos) Value {
		s := args[0].(*Str)
		if c, ok := s.Concrete(); ok && c == "" {
			// hex.DecodeString("") returns a non-nil empty slice
			return TupleV{E: []Value{BytesV{S: &Str{}}, IfaceV{}}}
		}
		if r, found := in.lookupInverse(s, "hex"); found {
			// DecodeString(EncodeToString(x)) == x (never nil)
			return TupleV{E: []Value{BytesV{S: r.s}, IfaceV{}}}
		}
		ok := in.uf("hex.dec.ok", 0, in.strTerms(s)...)
		if in.branch(ok) {
			d := in.ufStr("hex.dec", 0, (s.Cap()+1)/2, nil, []*Str{s}, nil)
			return TupleV{E: []Value{BytesV{S: d}, IfaceV{}}}
		}
		return TupleV{E: []Value{BytesV{Nil: true, S: &Str{}}, in.newError(in.str.Const("encoding/hex: invalid byte"))}}
	})

	// hmac / sha256 / fnv: opaque hash objects accumulating a string
	reg("crypto/hmac.New", func(in *Interp, _ *frame, _ *ssa.Function, args []Value, pos tokenPos) Value {
		key := &Str{}
		switch k := args[1].(type) {
		case BytesV:
			key = k.S
		case SliceV:
			key = in.sliceToStr(k, pos)
		}
		return IfaceV{T: types.Typ[types.UnsafePointer], V: OpaqueV{Tag: "hash", Data: &hashModel{kind: "hmac", key: key, acc: &Str{}}}}
	})
	reg("hash/fnv.New64", func(in *Interp, _ *frame, _ *ssa.Function, args []Value, pos tokenPos) Value {
		return IfaceV{T: types.Typ[types.UnsafePointer], V: OpaqueV{Tag: "hash", Data: &hashModel{kind: "fnv64", key: &Str{}, acc: &Str{}}}}
	})
	reg("hash/fnv.New64a", func(in *Interp, _ *frame, _ *ssa.Function, args []Value, pos tokenPos) Value {
		return IfaceV{T: types.Typ[types.UnsafePointer], V: OpaqueV{Tag: "hash", Data: &hashModel{kind: "fnv64a", key: &Str{}, acc: &Str{}}}}
	})
	modelMethods["model:hash.Write"] = func(in *Interp, _ *frame, _ *ssa.Function, args []Value, pos tokenPos) Value {
		h := args[0].(OpaqueV).Data.(*hashModel)
		s := in.toStrArg(args[1], pos)
		h.acc = in.str.Concat(h.acc, s)
		return TupleV{E: []Value{Sc{in.str.Len(s)}, IfaceV{}}}
	}
	modelMethods["model:hash.Sum"] = func(in *Interp, _ *frame, _ *ssa.Function, args []Value, pos tokenPos) Value {
		h := args[0].(OpaqueV).Data.(*hashModel)
		n := 32
		sum := in.ufStr("mac."+h.kind, n, n, nil, []*Str{h.key, h.acc}, nil)
		return BytesV{S: sum}
	}
	modelMethods["model:hash.Sum64"] = func(in *Interp, _ *frame, _ *ssa.Function, args []Value, pos tokenPos) Value {
		h := args[0].(OpaqueV).Data.(*hashModel)
		return Sc{in.uf("hash."+h.kind, 64, in.strTerms(h.acc)...)}
	}

	// net/url (only what generateCaptchaURL needs)
	reg("net/url.Parse", func(in *Interp, _ *frame, fn *ssa.Function, args []Value, pos tokenPos) Value {
		s := args[0].(*Str)
		ok := in.uf("url.Parse.ok", 0, in.strTerms(s)...)
		urlT := fn.Signature.Results().At(0).Type().(*types.Pointer).Elem()
		if in.branch(ok) {
			sv := in.zero(urlT).(*StructV)
			st := urlT.Underlying().(*types.Struct)
			for i := 0; i < st.NumFields(); i++ {
				switch st.Field(i).Name() {
				case "Path":
					sv.F[i] = in.ufStr("url.path", 0, s.Cap(), in.isCleanByte, []*Str{s}, nil)
				case "Opaque":
					sv.F[i] = s // remembered for String()
				}
			}
			o := in.newObj(sv, urlT, "url")
			o.heap = true
			return TupleV{E: []Value{PtrV{obj: o}, IfaceV{}}}
		}
		return TupleV{E: []Value{PtrV{}, in.newError(in.str.Const("parse error"))}}
	})
	reg("(*net/url.URL).String", func(in *Interp, _ *frame, fn *ssa.Function, args []Value, pos tokenPos) Value {
		p := args[0].(PtrV)
		if p.IsNil() {
			in.goPanicf(pos, "nilderef", "nil *url.URL")
		}
		sv := p.obj.val.(*StructV)
		st := p.obj.typ.Underlying().(*types.Struct)
		var parts []*Str
		for i := 0; i < st.NumFields(); i++ {
			switch st.Field(i).Name() {
			case "Path", "Opaque", "Fragment":
				parts = append(parts, sv.F[i].(*Str))
			}
		}
		cap := 8
		for _, q := range parts {
			cap += 3 * q.Cap()
		}
		return in.ufStr("url.String", 0, cap, in.isCleanByte, parts, nil)
	})
}

type hashModel struct {
	kind string
	key  *Str
	acc  *Str
}

type reModel struct {
	pat  *Str
	prog *syntax.Prog
	src  string
	// a choice between two concrete expressions (harness API verifRegexpEither)
	sel *Term
	alt *reModel
}

func regexpQuoteMeta(s string) string {
	const special = `\.+*?()|[]{}^$`
	var sb strings.Builder
	for i := 0; i < len(s); i++ {
		if strings.IndexByte(special, s[i]) >= 0 {
			sb.WriteByte('\\')
		}
		sb.WriteByte(s[i])
	}
	return sb.String()
}

func (in *Interp) assumeASCII(s *Str) {
	if _, ok := s.Concrete(); ok {
		return
	}
	c := in.str.IsASCII(s)
	if c.IsTrue() {
		return
	}
	in.note("ascii-case-mapping")
	in.assume(c)
}

// splitStr implements strings.Split for a constant single-byte separator.
func (in *Interp) splitStr(s, sep *Str) Value {
	b := in.b
	sc, ok := sep.Concrete()
	if !ok || len(sc) != 1 {
		if c, ok2 := s.Concrete(); ok2 && ok {
			return in.strSlice(strings.Split(c, sc))
		}
		in.unsupported("strings.Split with separator %v", sep)
	}
	if c, ok := s.Concrete(); ok {
		return in.strSlice(strings.Split(c, sc))
	}
	cnt := in.str.CountByte(s, sc[0])
	maxParts := s.Cap() + 1
	if lim := in.opts.SplitMax + 1; in.opts.SplitMax > 0 && maxParts > lim {
		// stated input bound: at most SplitMax separators per split string
		in.note(fmt.Sprintf("bound: strings.Split inputs contain at most %d separators", in.opts.SplitMax))
		in.assume(b.ULe(cnt, b.BV(uint64(in.opts.SplitMax), 8)))
		maxParts = lim
	}
	conds := make([]*Term, maxParts)
	for n := 0; n < maxParts; n++ {
		conds[n] = b.Eq(cnt, b.BV(uint64(n), 8))
	}
	k := in.choose(conds) // k separators, k+1 parts
	parts := in.str.SplitParts(s, sc[0], k+1)
	vals := make([]Value, len(parts))
	for i, p := range parts {
		vals[i] = p
	}
	return in.mkSlice(vals, types.Typ[types.String])
}

func (in *Interp) strSlice(ss []string) Value {
	vals := make([]Value, len(ss))
	for i, s := range ss {
		vals[i] = in.str.Const(s)
	}
	return in.mkSlice(vals, types.Typ[types.String])
}

func (in *Interp) mkSlice(vals []Value, et types.Type) Value {
	o := in.newObj(&ArrayV{E: vals}, types.NewArray(et, int64(len(vals))), "slice")
	o.heap = true
	return SliceV{arr: o, len: len(vals), cap: len(vals)}
}

// trimPred removes leading and trailing bytes satisfying pred.
func (in *Interp) trimPred(s *Str, pred func(*Term) *Term) *Str {
	b := in.b
	f := in.str.Flat(s)
	n := len(f.B)
	ps := make([]*Term, n)
	for i := range ps {
		ps[i] = pred(f.B[i])
	}
	// start = first i < len with !p_i, else len
	start := f.Len
	for i := n - 1; i >= 0; i-- {
		start = b.Ite(b.And(b.ULt(b.BV(uint64(i), 64), f.Len), b.Not(ps[i])), b.BV(uint64(i), 64), start)
	}
	// end = 1 + last i < len with !p_i, else start
	end := start
	for i := 0; i < n; i++ {
		end = b.Ite(b.And(b.ULt(b.BV(uint64(i), 64), f.Len), b.Not(ps[i])), b.BV(uint64(i+1), 64), end)
	}
	start = in.narrow(start, 0, uint64(n))
	end = in.narrow(end, 0, uint64(n))
	return in.str.Slice(in.str.FromSym(f), start, end)
}

// fmtInt renders an integer; constants exactly, hex exactly, decimal as an
// uninterpreted digit string.
func (in *Interp) fmtInt(t *Term, signed bool, base int) *Str {
	b := in.b
	if t.IsConst() {
		if signed {
			return in.str.Const(strconv.FormatInt(signExt(t.val, t.w), base))
		}
		return in.str.Const(strconv.FormatUint(t.val, base))
	}
	if base == 16 && !signed {
		return in.hexStr(t)
	}
	digit := func(c *Term) *Term {
		return b.Or(in.str.inRange(c, '0', '9'), in.str.inRange(c, 'a', 'z'), b.Eq(c, b.BV('-', 8)))
	}
	return in.ufStr("itoa"+strconv.Itoa(base), 1, 20, digit, nil, []*Term{t})
}

// hexStr is the exact lower-case hexadecimal rendering of an unsigned value (no leading zeros).
func (in *Interp) hexStr(t *Term) *Str {
	b := in.b
	w := t.w
	nn := int(w / 4)
	nib := make([]*Term, nn) // nib[0] = least significant
	for i := 0; i < nn; i++ {
		nib[i] = b.Extract(t, uint8(4*i+3), uint8(4*i))
	}
	hexc := func(n *Term) *Term {
		z := b.ZExt(n, 8)
		return b.Ite(b.ULt(n, b.BV(10, 4)), b.Add(z, b.BV('0', 8)), b.Add(z, b.BV('a'-10, 8)))
	}
	// length = index of highest non-zero nibble + 1, min 1
	ln := b.BV(1, 64)
	for i := 1; i < nn; i++ {
		ln = b.Ite(b.Ne(nib[i], b.BV(0, 4)), b.BV(uint64(i+1), 64), ln)
	}
	if ln.hi > uint64(nn) {
		ln.hi = uint64(nn)
	}
	out := make([]*Term, nn)
	for p := 0; p < nn; p++ {
		// out[p] = hexc(nib[len-1-p])
		res := b.BV('0', 8)
		for L := nn; L >= 1; L-- {
			if L-1-p < 0 {
				continue
			}
			res = b.Ite(b.Eq(ln, b.BV(uint64(L), 64)), hexc(nib[L-1-p]), res)
		}
		out[p] = res
	}
	return in.str.FromSym(&SymStr{Len: ln, B: out})
}

func (in *Interp) quoteStr(s *Str) *Str {
	if c, ok := s.Concrete(); ok {
		return in.str.Const(strconv.Quote(c))
	}
	return in.ufStr("quote", 2, 4*s.Cap()+2, in.isCleanByte, []*Str{s}, nil)
}

// ---- regexp NFA over bounded ASCII strings ----

func (in *Interp) newRegexp(p string, ps *Str, pos tokenPos) Value {
	re, err := syntax.Parse(p, syntax.Perl)
	if err != nil {
		in.goPanicf(pos, "regexp", "regexp: Compile(%q): %v", p, err)
	}
	prog, err := syntax.Compile(re.Simplify())
	if err != nil {
		in.unsupported("regexp compile: %v", err)
	}
	o := in.newObj(OpaqueV{Tag: "regexp", Data: &reModel{pat: ps, prog: prog, src: p}}, nil, "regexp")
	o.heap = true
	return PtrV{obj: o}
}

func (in *Interp) reMatch(rm *reModel, s *Str) *Term {
	b := in.b
	if rm.alt != nil {
		first := *rm
		first.alt = nil
		return b.Ite(rm.sel, in.reMatch(&first, s), in.reMatch(rm.alt, s))
	}
	if rm.prog == nil {
		keys := append(in.strTerms(rm.pat), b.BV(0xffff, 16))
		keys = append(keys, in.strTerms(s)...)
		return in.uf("regexp.match", 0, keys...)
	}
	in.assumeASCII(s)
	f := in.str.Flat(s)
	n := len(f.B)
	prog := rm.prog
	np := len(prog.Inst)
	// closure computes the epsilon closure at position p from seed conditions
	closure := func(seed []*Term, p int) []*Term {
		cur := make([]*Term, np)
		for i := range cur {
			cur[i] = b.False
		}
		atStart := b.Bool(p == 0)
		atEnd := b.Eq(f.Len, b.BV(uint64(p), 64))
		var add func(pc int, c *Term, depth int)
		add = func(pc int, c *Term, depth int) {
			if c.IsFalse() || depth > 4*np {
				return
			}
			nw := b.Or(cur[pc], c)
			if nw == cur[pc] {
				return
			}
			cur[pc] = nw
			inst := &prog.Inst[pc]
			switch inst.Op {
			case syntax.InstAlt, syntax.InstAltMatch:
				add(int(inst.Out), c, depth+1)
				add(int(inst.Arg), c, depth+1)
			case syntax.InstCapture, syntax.InstNop:
				add(int(inst.Out), c, depth+1)
			case syntax.InstEmptyWidth:
				cond := c
				e := syntax.EmptyOp(inst.Arg)
				if e&(syntax.EmptyBeginText|syntax.EmptyBeginLine) != 0 {
					if e&syntax.EmptyBeginLine != 0 && e&syntax.EmptyBeginText == 0 {
						in.unsupported("regexp: multi-line anchors")
					}
					cond = b.And(cond, atStart)
				}
				if e&(syntax.EmptyEndText|syntax.EmptyEndLine) != 0 {
					if e&syntax.EmptyEndLine != 0 && e&syntax.EmptyEndText == 0 {
						in.unsupported("regexp: multi-line anchors")
					}
					cond = b.And(cond, atEnd)
				}
				if e&(syntax.EmptyWordBoundary|syntax.EmptyNoWordBoundary) != 0 {
					in.unsupported("regexp: word boundary")
				}
				add(int(inst.Out), cond, depth+1)
			}
		}
		for pc, c := range seed {
			if c != nil && !c.IsFalse() {
				add(pc, c, 0)
			}
		}
		return cur
	}
	matchByte := func(inst *syntax.Inst, c *Term) *Term {
		switch inst.Op {
		case syntax.InstRuneAny:
			return b.True
		case syntax.InstRuneAnyNotNL:
			return b.Ne(c, b.BV('\n', 8))
		}
		if syntax.Flags(inst.Arg)&syntax.FoldCase != 0 {
			in.unsupported("regexp: case folding")
		}
		rs := inst.Rune
		if len(rs) == 1 {
			if rs[0] >= 0x80 {
				return b.False
			}
			return b.Eq(c, b.BV(uint64(rs[0]), 8))
		}
		var dis []*Term
		for i := 0; i+1 < len(rs); i += 2 {
			lo, hi := rs[i], rs[i+1]
			if lo >= 0x80 {
				continue
			}
			if hi >= 0x80 {
				hi = 0x7f
			}
			dis = append(dis, in.str.inRange(c, byte(lo), byte(hi)))
		}
		return b.Or(dis...)
	}
	matched := b.False
	var carry []*Term
	for p := 0; p <= n; p++ {
		live := b.ULe(b.BV(uint64(p), 64), f.Len) // position exists
		seed := make([]*Term, np)
		for i := range seed {
			if carry != nil {
				seed[i] = carry[i]
			}
		}
		// unanchored search: a match may start at every position
		st := live
		if seed[prog.Start] != nil {
			st = b.Or(seed[prog.Start], live)
		}
		seed[prog.Start] = st
		cur := closure(seed, p)
		for pc := range prog.Inst {
			if prog.Inst[pc].Op == syntax.InstMatch {
				matched = b.Or(matched, b.And(cur[pc], live))
			}
		}
		if p == n {
			break
		}
		next := make([]*Term, np)
		hasByte := b.ULt(b.BV(uint64(p), 64), f.Len)
		for pc := range prog.Inst {
			inst := &prog.Inst[pc]
			switch inst.Op {
			case syntax.InstRune, syntax.InstRune1, syntax.InstRuneAny, syntax.InstRuneAnyNotNL:
				if cur[pc].IsFalse() {
					continue
				}
				c := b.And(cur[pc], hasByte, matchByte(inst, f.B[p]))
				if next[inst.Out] == nil {
					next[inst.Out] = c
				} else {
					next[inst.Out] = b.Or(next[inst.Out], c)
				}
			}
		}
		carry = next
	}
	return matched
}

// strKey is a structural identity of a symbolic string (segment constants and term ids).
func (in *Interp) strKey(x *Str) string {
	var sb strings.Builder
	for _, g := range x.segs {
		if g.sym == nil {
			fmt.Fprintf(&sb, "c%q|", g.c)
			continue
		}
		fmt.Fprintf(&sb, "s%d:", g.sym.Len.id)
		for _, t := range g.sym.B {
			fmt.Fprintf(&sb, "%d,", t.id)
		}
		sb.WriteByte('|')
	}
	return sb.String()
}
