package main

// Minimal models of net/http, encoding/json decoding and context pieces that
// the API handlers touch (DESIGN.md §5.2): headers are plain maps, the
// response writer is a harness type, decoders havoc their target.

import (
	"fmt"
	"go/types"
	"net/textproto"

	"golang.org/x/tools/go/ssa"
)

func (in *Interp) callMethod(caller *frame, recv Value, name string, pos tokenPos, args ...Value) Value {
	iv, ok := recv.(IfaceV)
	if !ok {
		in.unsupported("callMethod on %T", recv)
	}
	if iv.T == nil {
		in.goPanicf(pos, "nilderef", "method %s on nil interface", name)
	}
	f := in.eng.prog.LookupMethod(iv.T, nil, name)
	if f == nil {
		// unexported or package-qualified lookup failed: search the method set
		ms := in.eng.prog.MethodSets.MethodSet(iv.T)
		for i := 0; i < ms.Len(); i++ {
			if ms.At(i).Obj().Name() == name {
				f = in.eng.prog.MethodValue(ms.At(i))
			}
		}
	}
	if f == nil {
		in.unsupported("method %s not found on %v", name, iv.T)
	}
	return in.callSSA(caller, f, append([]Value{iv.V}, args...), nil, pos)
}

func registerHTTP(e *Engine) {
	reg := func(name string, f IntrinsicFn) { e.intr[name] = f }
	canon := func(in *Interp, v Value) Value {
		s := v.(*Str)
		if c, ok := s.Concrete(); ok {
			return in.str.Const(textproto.CanonicalMIMEHeaderKey(c))
		}
		in.unsupported("http.Header with symbolic key")
		return nil
	}
	hdrType := func(fn *ssa.Function) *types.Map {
		return fn.Signature.Recv().Type().Underlying().(*types.Map)
	}
	reg("(net/http.Header).Get", func(in *Interp, _ *frame, fn *ssa.Function, args []Value, pos tokenPos) Value {
		mv := args[0].(MapV)
		v, ok := in.mapLookup(mv, canon(in, args[1]), hdrType(fn).Elem())
		_ = ok
		sl, isSl := v.(SliceV)
		if !isSl || sl.arr == nil || sl.len == 0 {
			return in.str.Const("")
		}
		return sliceElems(sl)[0]
	})
	reg("(net/http.Header).Set", func(in *Interp, _ *frame, fn *ssa.Function, args []Value, pos tokenPos) Value {
		mv := args[0].(MapV)
		in.mapUpdate(mv, canon(in, args[1]), in.mkSlice([]Value{args[2]}, types.Typ[types.String]), pos)
		return nil
	})
	reg("(net/http.Header).Add", func(in *Interp, _ *frame, fn *ssa.Function, args []Value, pos tokenPos) Value {
		mv := args[0].(MapV)
		in.mapUpdate(mv, canon(in, args[1]), in.mkSlice([]Value{args[2]}, types.Typ[types.String]), pos)
		return nil
	})
	reg("(net/http.Header).Del", func(in *Interp, _ *frame, fn *ssa.Function, args []Value, pos tokenPos) Value {
		in.mapDelete(args[0], canon(in, args[1]))
		return nil
	})
	reg("net/http.Error", func(in *Interp, caller *frame, fn *ssa.Function, args []Value, pos tokenPos) Value {
		w := args[0]
		in.callMethod(caller, w, "WriteHeader", pos, args[2])
		in.callMethod(caller, w, "Write", pos, BytesV{S: args[1].(*Str)})
		return nil
	})
	reg("(*net/http.Request).FormValue", func(in *Interp, _ *frame, fn *ssa.Function, args []Value, pos tokenPos) Value {
		rp := args[0].(PtrV)
		req := rp.obj.val.(*StructV)
		st := rp.obj.typ.Underlying().(*types.Struct)
		for i := 0; i < st.NumFields(); i++ {
			if st.Field(i).Name() == "Form" {
				mv, _ := req.F[i].(MapV)
				v, _ := in.mapLookup(mv, args[1], st.Field(i).Type().Underlying().(*types.Map).Elem())
				if sl, ok := v.(SliceV); ok && sl.arr != nil && sl.len > 0 {
					return sliceElems(sl)[0]
				}
			}
		}
		return in.str.Const("")
	})
	reg("(*net/http.Request).BasicAuth", func(in *Interp, _ *frame, fn *ssa.Function, args []Value, pos tokenPos) Value {
		rp := args[0].(PtrV)
		if g, ok := in.ghost["basicauth"]; ok {
			t := g.(TupleV)
			if t.E[0].(PtrV).obj == rp.obj {
				return TupleV{E: []Value{t.E[1], t.E[2], t.E[3]}}
			}
		}
		return TupleV{E: []Value{in.str.Const(""), in.str.Const(""), Sc{in.b.False}}}
	})
	reg("net.SplitHostPort", func(in *Interp, _ *frame, fn *ssa.Function, args []Value, pos tokenPos) Value {
		s := args[0].(*Str)
		ok := in.uf("net.SplitHostPort.ok", 0, in.strTerms(s)...)
		if in.branch(ok) {
			host := in.ufStr("net.SplitHostPort.host", 0, s.Cap(), nil, []*Str{s}, nil)
			port := in.ufStr("net.SplitHostPort.port", 0, s.Cap(), nil, []*Str{s}, nil)
			return TupleV{E: []Value{host, port, IfaceV{}}}
		}
		return TupleV{E: []Value{in.str.Const(""), in.str.Const(""), in.newError(in.str.Const("missing port in address"))}}
	})
	// body decoding: the decoder havocs its target
	reg("net/http.MaxBytesReader", func(in *Interp, _ *frame, fn *ssa.Function, args []Value, pos tokenPos) Value { return args[1] })
	reg("io.TeeReader", func(in *Interp, _ *frame, fn *ssa.Function, args []Value, pos tokenPos) Value {
		in.ghost["tee:writer"] = args[1]
		return args[0]
	})
	reg("github.com/BurntSushi/toml.DecodeReader", func(in *Interp, caller *frame, fn *ssa.Function, args []Value, pos tokenPos) Value {
		meta := in.zero(fn.Signature.Results().At(0).Type())
		in.teeBody(caller, pos)
		if v, ok := in.ghost["body:valid"]; ok && v.(Sc).T.IsFalse() {
			return TupleV{E: []Value{meta, in.newError(in.str.Const("toml: parse error"))}}
		}
		if v, ok := in.ghost["body:valid"]; ok && !v.(Sc).T.IsTrue() {
			if !in.branch(v.(Sc).T) {
				return TupleV{E: []Value{meta, in.newError(in.str.Const("toml: parse error"))}}
			}
		}
		return TupleV{E: []Value{meta, IfaceV{}}}
	})
	reg("encoding/json.NewDecoder", func(in *Interp, _ *frame, fn *ssa.Function, args []Value, pos tokenPos) Value {
		o := in.newObj(OpaqueV{Tag: "jsondec"}, nil, "json.Decoder")
		o.heap = true
		return PtrV{obj: o}
	})
	reg("(*encoding/json.Decoder).Decode", func(in *Interp, _ *frame, fn *ssa.Function, args []Value, pos tokenPos) Value {
		iv := args[1].(IfaceV)
		dp := iv.V.(PtrV)
		in.teeBody(nil, pos)
		if fields, ok := in.ghost["body:json"]; ok {
			valid := in.ghost["body:valid"].(Sc).T
			if !in.branch(valid) {
				return in.newError(in.str.Const("json: cannot decode request body"))
			}
			cur := in.load(dp, pos).(*StructV)
			st := iv.T.Underlying().(*types.Pointer).Elem().Underlying().(*types.Struct)
			out := &StructV{F: append([]Value{}, cur.F...)}
			mv := fields.(MapV)
			for i := 0; i < st.NumFields(); i++ {
				for _, e := range mv.m.entries {
					if k, isC := e.key.(*Str).Concrete(); isC && k == st.Field(i).Name() {
						out.F[i] = e.val.(IfaceV).V
					}
				}
			}
			in.store(dp, out, pos)
			return IfaceV{}
		}
		if !in.branch(Sc{in.drawBV("bool", 0)}.T) {
			return in.newError(in.str.Const("json: cannot decode request body"))
		}
		cur := in.load(dp, pos)
		in.store(dp, in.havoc(cur, dp.obj.typ, iv.T), pos)
		return IfaceV{}
	})
	reg("encoding/json.NewEncoder", func(in *Interp, _ *frame, fn *ssa.Function, args []Value, pos tokenPos) Value {
		o := in.newObj(OpaqueV{Tag: "jsonenc", Data: args[0]}, nil, "json.Encoder")
		o.heap = true
		return PtrV{obj: o}
	})
}

type ctxModel struct {
	cancelled bool
	done      *ChanObj
}

// havoc replaces every exported scalar/string field of a decoded request struct by a fresh draw.
func (in *Interp) havoc(v Value, objT types.Type, ptrT types.Type) Value {
	var st *types.Struct
	if pt, ok := ptrT.Underlying().(*types.Pointer); ok {
		st, _ = pt.Elem().Underlying().(*types.Struct)
	}
	sv, ok := v.(*StructV)
	if !ok || st == nil {
		in.unsupported("json decode into %T", v)
	}
	out := &StructV{F: make([]Value, len(sv.F))}
	for i := range sv.F {
		f := st.Field(i)
		if !f.Exported() {
			out.F[i] = sv.F[i]
			continue
		}
		switch {
		case isString(f.Type()):
			n := 6
			if p, ok := in.opts.Params["jsonstr"]; ok {
				n = p
			}
			out.F[i] = in.drawString(n)
		case isBoolT(f.Type()):
			out.F[i] = Sc{in.drawBV("bool", 0)}
		default:
			if w, _, ok := intWidth(f.Type()); ok {
				if w == 64 {
					out.F[i] = Sc{in.drawBV("u64", 64)}
				} else {
					out.F[i] = Sc{in.b.Extract(in.drawBV("u64", 64), w-1, 0)}
				}
			} else {
				out.F[i] = sv.F[i]
			}
		}
	}
	return out
}

// teeBody copies the request body text into the writer of a preceding io.TeeReader.
func (in *Interp) teeBody(caller *frame, pos tokenPos) {
	w, ok := in.ghost["tee:writer"]
	if !ok {
		return
	}
	delete(in.ghost, "tee:writer")
	txt, ok := in.ghost["body:text"]
	if !ok {
		return
	}
	if iv, isI := w.(IfaceV); isI {
		if p, isP := iv.V.(PtrV); isP && !p.IsNil() {
			if o, isO := in.load(p, pos).(OpaqueV); isO && o.Tag == "bytes.Buffer" {
				bm := o.Data.(*bufModel)
				bm.s = in.str.Concat(bm.s, txt.(*Str))
			}
		}
	}
}

// ---- context, timers and the JSON encoder (handler-level harnesses) ----

type ctxNode struct {
	parent    Value // IfaceV of the parent context, or nil
	done      *ChanObj
	cancelled bool
}

func (in *Interp) ctxRefresh(caller *frame, c *ctxNode, pos tokenPos) {
	if c.cancelled || c.parent == nil {
		return
	}
	if pi, ok := c.parent.(IfaceV); ok && pi.T != nil {
		d := in.callMethod(caller, pi, "Done", pos)
		if cv, ok := d.(ChanV); ok && cv.c != nil && cv.c.closed {
			c.cancelled = true
			c.done.closed = true
		}
	}
}

func registerCtxModel(e *Engine) {
	reg := func(name string, f IntrinsicFn) { e.intr[name] = f }
	ctxOf := func(v Value) *ctxNode {
		switch x := v.(type) {
		case OpaqueV:
			if c, ok := x.Data.(*ctxNode); ok {
				return c
			}
		}
		return nil
	}
	reg("context.WithCancel", func(in *Interp, _ *frame, fn *ssa.Function, args []Value, pos tokenPos) Value {
		in.nobj++
		c := &ctxNode{parent: args[0], done: &ChanObj{id: in.nobj}}
		in.ctxNodes = append(in.ctxNodes, c)
		ov := OpaqueV{Tag: "ctxnode", Data: c}
		return TupleV{E: []Value{IfaceV{T: types.Typ[types.UnsafePointer], V: ov}, FuncV{Builtin: "model:ctxnode.cancel", Recv: ov}}}
	})
	reg("context.Background", func(in *Interp, _ *frame, fn *ssa.Function, args []Value, pos tokenPos) Value {
		in.nobj++
		return IfaceV{T: types.Typ[types.UnsafePointer], V: OpaqueV{Tag: "ctxnode", Data: &ctxNode{done: &ChanObj{id: in.nobj}}}}
	})
	modelMethods["model:ctxnode.cancel"] = func(in *Interp, _ *frame, _ *ssa.Function, args []Value, pos tokenPos) Value {
		// called as a plain func value: the node travels in the ghost slot set below
		if c := in.cancelTarget; c != nil && !c.cancelled {
			c.cancelled = true
			c.done.closed = true
		}
		return nil
	}
	modelMethods["model:ctxnode.Done"] = func(in *Interp, caller *frame, _ *ssa.Function, args []Value, pos tokenPos) Value {
		c := ctxOf(args[0])
		in.ctxRefresh(caller, c, pos)
		return ChanV{c: c.done}
	}
	modelMethods["model:ctxnode.Err"] = func(in *Interp, caller *frame, _ *ssa.Function, args []Value, pos tokenPos) Value {
		c := ctxOf(args[0])
		in.ctxRefresh(caller, c, pos)
		if c.cancelled {
			return in.newError(in.str.Const("context canceled"))
		}
		return IfaceV{}
	}
	modelMethods["model:ctxnode.Value"] = func(in *Interp, _ *frame, _ *ssa.Function, args []Value, pos tokenPos) Value { return IfaceV{} }
	modelMethods["model:ctxnode.Deadline"] = func(in *Interp, _ *frame, _ *ssa.Function, args []Value, pos tokenPos) Value {
		return TupleV{E: []Value{TimeV{Kind: TimeZero, V: in.b.BV(0, 64)}, Sc{in.b.False}}}
	}
	// requests carry the context the harness attached with WithContext
	reg("(*net/http.Request).WithContext", func(in *Interp, _ *frame, fn *ssa.Function, args []Value, pos tokenPos) Value {
		rp := args[0].(PtrV)
		o := in.newObj(copyVal(in.load(rp, pos)), rp.obj.typ, "Request.WithContext")
		o.heap = true
		in.ghost[fmt.Sprintf("reqctx:%d", o.id)] = args[1]
		return PtrV{obj: o}
	})
	reg("(*net/http.Request).Context", func(in *Interp, _ *frame, fn *ssa.Function, args []Value, pos tokenPos) Value {
		rp := args[0].(PtrV)
		if c, ok := in.ghost[fmt.Sprintf("reqctx:%d", rp.obj.id)]; ok {
			return c
		}
		in.nobj++
		return IfaceV{T: types.Typ[types.UnsafePointer], V: OpaqueV{Tag: "ctxnode", Data: &ctxNode{done: &ChanObj{id: in.nobj}}}}
	})
	// timers never fire within a path (flushing and pings are outside the properties checked through handlers)
	mkTimer := func(in *Interp, fn *ssa.Function) Value {
		pt := fn.Signature.Results().At(0).Type().(*types.Pointer)
		sv := in.zero(pt.Elem()).(*StructV)
		st := pt.Elem().Underlying().(*types.Struct)
		for i := 0; i < st.NumFields(); i++ {
			if st.Field(i).Name() == "C" {
				in.nobj++
				sv.F[i] = ChanV{c: &ChanObj{cap: 1, id: in.nobj}}
			}
		}
		o := in.newObj(sv, pt.Elem(), "timer")
		o.heap = true
		return PtrV{obj: o}
	}
	reg("time.NewTimer", func(in *Interp, _ *frame, fn *ssa.Function, args []Value, pos tokenPos) Value { return mkTimer(in, fn) })
	reg("time.NewTicker", func(in *Interp, _ *frame, fn *ssa.Function, args []Value, pos tokenPos) Value { return mkTimer(in, fn) })
	reg("(*time.Timer).Stop", func(in *Interp, _ *frame, fn *ssa.Function, args []Value, pos tokenPos) Value { return Sc{in.b.False} })
	reg("(*time.Timer).Reset", func(in *Interp, _ *frame, fn *ssa.Function, args []Value, pos tokenPos) Value { return Sc{in.b.False} })
	reg("(*time.Ticker).Stop", func(in *Interp, _ *frame, fn *ssa.Function, args []Value, pos tokenPos) Value { return nil })
	// the JSON encoder records what is encoded (ghost list read by verifEncoded) and writes a placeholder line
	reg("(*encoding/json.Encoder).Encode", func(in *Interp, caller *frame, fn *ssa.Function, args []Value, pos tokenPos) Value {
		in.encoded = append(in.encoded, args[1])
		ep := args[0].(PtrV)
		if o, ok := in.load(ep, pos).(OpaqueV); ok && o.Tag == "jsonenc" {
			in.callMethod(caller, o.Data.(Value), "Write", pos, BytesV{S: in.str.Const("{}\n")})
		}
		return IfaceV{}
	})
}

// ---- chunked byte source behind a *bufio.Reader (snapshot decoding) ----
//
// The writer side hands the harness a list of chunks (one per Write call); the
// reader side consumes them through ReadByte / Peek / io.ReadFull.  Reads must
// be aligned with the chunks (a length prefix, then exactly that many bytes),
// which is how the snapshot format is written and read; anything else is
// reported as unsupported rather than guessed.

type bufrModel struct {
	chunks []*Str
}

func (in *Interp) bufrOf(v Value, pos tokenPos) *bufrModel {
	if iv, ok := v.(IfaceV); ok {
		v = iv.V
	}
	p, ok := v.(PtrV)
	if !ok || p.IsNil() {
		return nil
	}
	if o, ok := p.obj.val.(OpaqueV); ok && o.Tag == "bufr" {
		return o.Data.(*bufrModel)
	}
	return nil
}

func registerBufr(e *Engine) {
	reg := func(name string, f IntrinsicFn) { e.intr[name] = f }
	eof := func(in *Interp) Value { return in.externalError("io.EOF") }
	reg("(*bufio.Reader).ReadByte", func(in *Interp, _ *frame, _ *ssa.Function, args []Value, pos tokenPos) Value {
		m := in.bufrOf(args[0], pos)
		if m == nil {
			in.unsupported("bufio.Reader that is not a harness chunk reader")
		}
		if len(m.chunks) == 0 {
			return TupleV{E: []Value{Sc{in.b.BV(0, 8)}, eof(in)}}
		}
		c := m.chunks[0]
		ln := in.str.Len(c)
		if !ln.IsConst() || ln.val != 1 {
			in.unsupported("ReadByte on a chunk that is not a single byte")
		}
		m.chunks = m.chunks[1:]
		return TupleV{E: []Value{Sc{in.str.ByteAt(c, in.b.BV(0, 64))}, IfaceV{}}}
	})
	reg("(*bufio.Reader).Peek", func(in *Interp, _ *frame, _ *ssa.Function, args []Value, pos tokenPos) Value {
		m := in.bufrOf(args[0], pos)
		n := args[1].(Sc).T
		if m == nil || !n.IsConst() || n.val != 1 {
			in.unsupported("bufio.Reader.Peek other than Peek(1) on a harness chunk reader")
		}
		if len(m.chunks) == 0 {
			return TupleV{E: []Value{BytesV{Nil: true, S: &Str{}}, eof(in)}}
		}
		c := m.chunks[0]
		if in.branch(in.b.Eq(in.str.Len(c), in.b.BV(0, 64))) {
			in.unsupported("Peek on an empty chunk")
		}
		return TupleV{E: []Value{BytesV{S: in.str.Slice(c, in.b.BV(0, 64), in.b.BV(1, 64))}, IfaceV{}}}
	})
	reg("io.ReadFull", func(in *Interp, _ *frame, _ *ssa.Function, args []Value, pos tokenPos) Value {
		m := in.bufrOf(args[0], pos)
		if m == nil {
			in.unsupported("io.ReadFull on a reader that is not a harness chunk reader")
		}
		b := in.b
		var want *Term
		switch buf := args[1].(type) {
		case BytesV:
			want = in.str.Len(buf.S)
		case SliceV:
			want = b.BV(uint64(buf.len), 64)
		default:
			in.unsupported("io.ReadFull into %T", args[1])
		}
		if len(m.chunks) == 0 {
			if in.branch(b.Eq(want, b.BV(0, 64))) {
				return TupleV{E: []Value{Sc{b.BV(0, 64)}, IfaceV{}}}
			}
			return TupleV{E: []Value{Sc{b.BV(0, 64)}, eof(in)}}
		}
		c := m.chunks[0]
		if !in.branch(b.Eq(want, in.str.Len(c))) {
			in.unsupported("io.ReadFull not aligned with the written chunks (buffer of a different size than the next chunk)")
		}
		m.chunks = m.chunks[1:]
		switch buf := args[1].(type) {
		case BytesV:
			if !in.lazyBufs[buf.S] {
				in.unsupported("io.ReadFull into a byte view that is not a fresh read buffer")
			}
			*buf.S = *c
			delete(in.lazyBufs, buf.S)
		case SliceV:
			f := in.str.Flat(c)
			arr := buf.arr.val.(*ArrayV)
			for k := 0; k < buf.len; k++ {
				if k < len(f.B) {
					arr.E[buf.off+k] = Sc{f.B[k]}
				} else {
					arr.E[buf.off+k] = Sc{b.BV(0, 8)}
				}
			}
		}
		return TupleV{E: []Value{Sc{want}, IfaceV{}}}
	})
}

// sync/atomic.Value: a cell holding an interface value (the zero Value holds nil).
func registerAtomicValue(e *Engine) {
	reg := func(name string, f IntrinsicFn) { e.intr[name] = f }
	key := func(v Value) string { return "atomicval:" + lockKey(v.(PtrV)) }
	reg("(*sync/atomic.Value).Load", func(in *Interp, _ *frame, _ *ssa.Function, args []Value, pos tokenPos) Value {
		if v, ok := in.ghost[key(args[0])]; ok {
			return v
		}
		return IfaceV{}
	})
	reg("(*sync/atomic.Value).Store", func(in *Interp, _ *frame, _ *ssa.Function, args []Value, pos tokenPos) Value {
		if iv, ok := args[1].(IfaceV); ok && iv.T == nil {
			in.goPanicf(pos, "atomicstore", "sync/atomic: store of nil value into Value")
		}
		in.ghost[key(args[0])] = args[1]
		return nil
	})
}
