package main

// Minimal models of net/http, encoding/json decoding and context pieces that
// the API handlers touch (DESIGN.md §5.2): headers are plain maps, the
// response writer is a harness type, decoders havoc their target.

import (
	"go/types"
	"net/textproto"

	"golang.org/x/tools/go/ssa"
)

func (in *Interp) callMethod(caller *frame, recv Value, name string, pos tokenPos, args ...Value) Value {
	iv, ok := recv.(IfaceV)
	if !ok {
		in.unsupported("callMethod on %T", recv)
	}
	if iv.T == nil {
		in.goPanicf(pos, "nilderef", "method %s on nil interface", name)
	}
	f := in.eng.prog.LookupMethod(iv.T, nil, name)
	if f == nil {
		// unexported or package-qualified lookup failed: search the method set
		ms := in.eng.prog.MethodSets.MethodSet(iv.T)
		for i := 0; i < ms.Len(); i++ {
			if ms.At(i).Obj().Name() == name {
				f = in.eng.prog.MethodValue(ms.At(i))
			}
		}
	}
	if f == nil {
		in.unsupported("method %s not found on %v", name, iv.T)
	}
	return in.callSSA(caller, f, append([]Value{iv.V}, args...), nil, pos)
}

func registerHTTP(e *Engine) {
	reg := func(name string, f IntrinsicFn) { e.intr[name] = f }
	canon := func(in *Interp, v Value) Value {
		s := v.(*Str)
		if c, ok := s.Concrete(); ok {
			return in.str.Const(textproto.CanonicalMIMEHeaderKey(c))
		}
		in.unsupported("http.Header with symbolic key")
		return nil
	}
	hdrType := func(fn *ssa.Function) *types.Map {
		return fn.Signature.Recv().Type().Underlying().(*types.Map)
	}
	reg("(net/http.Header).Get", func(in *Interp, _ *frame, fn *ssa.Function, args []Value, pos tokenPos) Value {
		mv := args[0].(MapV)
		v, ok := in.mapLookup(mv, canon(in, args[1]), hdrType(fn).Elem())
		_ = ok
		sl, isSl := v.(SliceV)
		if !isSl || sl.arr == nil || sl.len == 0 {
			return in.str.Const("")
		}
		return sliceElems(sl)[0]
	})
	reg("(net/http.Header).Set", func(in *Interp, _ *frame, fn *ssa.Function, args []Value, pos tokenPos) Value {
		mv := args[0].(MapV)
		in.mapUpdate(mv, canon(in, args[1]), in.mkSlice([]Value{args[2]}, types.Typ[types.String]), pos)
		return nil
	})
	reg("(net/http.Header).Add", func(in *Interp, _ *frame, fn *ssa.Function, args []Value, pos tokenPos) Value {
		mv := args[0].(MapV)
		in.mapUpdate(mv, canon(in, args[1]), in.mkSlice([]Value{args[2]}, types.Typ[types.String]), pos)
		return nil
	})
	reg("(net/http.Header).Del", func(in *Interp, _ *frame, fn *ssa.Function, args []Value, pos tokenPos) Value {
		in.mapDelete(args[0], canon(in, args[1]))
		return nil
	})
	reg("net/http.Error", func(in *Interp, caller *frame, fn *ssa.Function, args []Value, pos tokenPos) Value {
		w := args[0]
		in.callMethod(caller, w, "WriteHeader", pos, args[2])
		in.callMethod(caller, w, "Write", pos, BytesV{S: args[1].(*Str)})
		return nil
	})
	reg("(*net/http.Request).FormValue", func(in *Interp, _ *frame, fn *ssa.Function, args []Value, pos tokenPos) Value {
		rp := args[0].(PtrV)
		req := rp.obj.val.(*StructV)
		st := rp.obj.typ.Underlying().(*types.Struct)
		for i := 0; i < st.NumFields(); i++ {
			if st.Field(i).Name() == "Form" {
				mv, _ := req.F[i].(MapV)
				v, _ := in.mapLookup(mv, args[1], st.Field(i).Type().Underlying().(*types.Map).Elem())
				if sl, ok := v.(SliceV); ok && sl.arr != nil && sl.len > 0 {
					return sliceElems(sl)[0]
				}
			}
		}
		return in.str.Const("")
	})
	reg("(*net/http.Request).BasicAuth", func(in *Interp, _ *frame, fn *ssa.Function, args []Value, pos tokenPos) Value {
		rp := args[0].(PtrV)
		if g, ok := in.ghost["basicauth"]; ok {
			t := g.(TupleV)
			if t.E[0].(PtrV).obj == rp.obj {
				return TupleV{E: []Value{t.E[1], t.E[2], t.E[3]}}
			}
		}
		return TupleV{E: []Value{in.str.Const(""), in.str.Const(""), Sc{in.b.False}}}
	})
	reg("(*net/http.Request).Context", func(in *Interp, _ *frame, fn *ssa.Function, args []Value, pos tokenPos) Value {
		return IfaceV{T: types.Typ[types.UnsafePointer], V: OpaqueV{Tag: "ctx", Data: &ctxModel{}}}
	})
	reg("net.SplitHostPort", func(in *Interp, _ *frame, fn *ssa.Function, args []Value, pos tokenPos) Value {
		s := args[0].(*Str)
		ok := in.uf("net.SplitHostPort.ok", 0, in.strTerms(s)...)
		if in.branch(ok) {
			host := in.ufStr("net.SplitHostPort.host", 0, s.Cap(), nil, []*Str{s}, nil)
			port := in.ufStr("net.SplitHostPort.port", 0, s.Cap(), nil, []*Str{s}, nil)
			return TupleV{E: []Value{host, port, IfaceV{}}}
		}
		return TupleV{E: []Value{in.str.Const(""), in.str.Const(""), in.newError(in.str.Const("missing port in address"))}}
	})
	// body decoding: the decoder havocs its target
	reg("net/http.MaxBytesReader", func(in *Interp, _ *frame, fn *ssa.Function, args []Value, pos tokenPos) Value { return args[1] })
	reg("io.TeeReader", func(in *Interp, _ *frame, fn *ssa.Function, args []Value, pos tokenPos) Value {
		in.ghost["tee:writer"] = args[1]
		return args[0]
	})
	reg("github.com/BurntSushi/toml.DecodeReader", func(in *Interp, caller *frame, fn *ssa.Function, args []Value, pos tokenPos) Value {
		meta := in.zero(fn.Signature.Results().At(0).Type())
		in.teeBody(caller, pos)
		if v, ok := in.ghost["body:valid"]; ok && v.(Sc).T.IsFalse() {
			return TupleV{E: []Value{meta, in.newError(in.str.Const("toml: parse error"))}}
		}
		if v, ok := in.ghost["body:valid"]; ok && !v.(Sc).T.IsTrue() {
			if !in.branch(v.(Sc).T) {
				return TupleV{E: []Value{meta, in.newError(in.str.Const("toml: parse error"))}}
			}
		}
		return TupleV{E: []Value{meta, IfaceV{}}}
	})
	reg("encoding/json.NewDecoder", func(in *Interp, _ *frame, fn *ssa.Function, args []Value, pos tokenPos) Value {
		o := in.newObj(OpaqueV{Tag: "jsondec"}, nil, "json.Decoder")
		o.heap = true
		return PtrV{obj: o}
	})
	reg("(*encoding/json.Decoder).Decode", func(in *Interp, _ *frame, fn *ssa.Function, args []Value, pos tokenPos) Value {
		iv := args[1].(IfaceV)
		dp := iv.V.(PtrV)
		in.teeBody(nil, pos)
		if fields, ok := in.ghost["body:json"]; ok {
			valid := in.ghost["body:valid"].(Sc).T
			if !in.branch(valid) {
				return in.newError(in.str.Const("json: cannot decode request body"))
			}
			cur := in.load(dp, pos).(*StructV)
			st := iv.T.Underlying().(*types.Pointer).Elem().Underlying().(*types.Struct)
			out := &StructV{F: append([]Value{}, cur.F...)}
			mv := fields.(MapV)
			for i := 0; i < st.NumFields(); i++ {
				for _, e := range mv.m.entries {
					if k, isC := e.key.(*Str).Concrete(); isC && k == st.Field(i).Name() {
						out.F[i] = e.val.(IfaceV).V
					}
				}
			}
			in.store(dp, out, pos)
			return IfaceV{}
		}
		if !in.branch(Sc{in.drawBV("bool", 0)}.T) {
			return in.newError(in.str.Const("json: cannot decode request body"))
		}
		cur := in.load(dp, pos)
		in.store(dp, in.havoc(cur, dp.obj.typ, iv.T), pos)
		return IfaceV{}
	})
	reg("encoding/json.NewEncoder", func(in *Interp, _ *frame, fn *ssa.Function, args []Value, pos tokenPos) Value {
		o := in.newObj(OpaqueV{Tag: "jsonenc", Data: args[0]}, nil, "json.Encoder")
		o.heap = true
		return PtrV{obj: o}
	})
}

type ctxModel struct {
	cancelled bool
	done      *ChanObj
}

// havoc replaces every exported scalar/string field of a decoded request struct by a fresh draw.
func (in *Interp) havoc(v Value, objT types.Type, ptrT types.Type) Value {
	var st *types.Struct
	if pt, ok := ptrT.Underlying().(*types.Pointer); ok {
		st, _ = pt.Elem().Underlying().(*types.Struct)
	}
	sv, ok := v.(*StructV)
	if !ok || st == nil {
		in.unsupported("json decode into %T", v)
	}
	out := &StructV{F: make([]Value, len(sv.F))}
	for i := range sv.F {
		f := st.Field(i)
		if !f.Exported() {
			out.F[i] = sv.F[i]
			continue
		}
		switch {
		case isString(f.Type()):
			n := 6
			if p, ok := in.opts.Params["jsonstr"]; ok {
				n = p
			}
			out.F[i] = in.drawString(n)
		case isBoolT(f.Type()):
			out.F[i] = Sc{in.drawBV("bool", 0)}
		default:
			if w, _, ok := intWidth(f.Type()); ok {
				if w == 64 {
					out.F[i] = Sc{in.drawBV("u64", 64)}
				} else {
					out.F[i] = Sc{in.b.Extract(in.drawBV("u64", 64), w-1, 0)}
				}
			} else {
				out.F[i] = sv.F[i]
			}
		}
	}
	return out
}

// teeBody copies the request body text into the writer of a preceding io.TeeReader.
func (in *Interp) teeBody(caller *frame, pos tokenPos) {
	w, ok := in.ghost["tee:writer"]
	if !ok {
		return
	}
	delete(in.ghost, "tee:writer")
	txt, ok := in.ghost["body:text"]
	if !ok {
		return
	}
	if iv, isI := w.(IfaceV); isI {
		if p, isP := iv.V.(PtrV); isP && !p.IsNil() {
			if o, isO := in.load(p, pos).(OpaqueV); isO && o.Tag == "bytes.Buffer" {
				bm := o.Data.(*bufModel)
				bm.s = in.str.Concat(bm.s, txt.(*Str))
			}
		}
	}
}
