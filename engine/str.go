package main

// Bounded symbolic strings: a rope of segments, each either a concrete Go
// string or a symbolic atom (length term + capacity-many byte terms).
// Everything is expressed in QF_BV; no sequence theory is used.

import (
	"fmt"
	"strings"
)

type SymStr struct {
	Len *Term   // BV64, interval within [0, len(B)]
	B   []*Term // BV8 each
}

type Seg struct {
	c   string
	sym *SymStr
}

type Str struct {
	segs []Seg
}

type StrOps struct {
	b *Builder
}

func (so *StrOps) Const(s string) *Str {
	if s == "" {
		return &Str{}
	}
	return &Str{segs: []Seg{{c: s}}}
}

func (so *StrOps) FromSym(y *SymStr) *Str {
	if y.Len.IsConst() {
		// concrete length: maybe fully concrete
		n := int(y.Len.val)
		all := true
		for i := 0; i < n; i++ {
			if !y.B[i].IsConst() {
				all = false
				break
			}
		}
		if all {
			bs := make([]byte, n)
			for i := range bs {
				bs[i] = byte(y.B[i].val)
			}
			return so.Const(string(bs))
		}
		if n < len(y.B) {
			y = &SymStr{Len: y.Len, B: y.B[:n]}
		}
	}
	if len(y.B) == 0 {
		return &Str{}
	}
	return &Str{segs: []Seg{{sym: y}}}
}

func (s *Str) Concrete() (string, bool) {
	if len(s.segs) == 0 {
		return "", true
	}
	if len(s.segs) == 1 && s.segs[0].sym == nil {
		return s.segs[0].c, true
	}
	for _, g := range s.segs {
		if g.sym != nil {
			return "", false
		}
	}
	var sb strings.Builder
	for _, g := range s.segs {
		sb.WriteString(g.c)
	}
	return sb.String(), true
}

// Cap is the maximal possible length.
func (s *Str) Cap() int {
	n := 0
	for _, g := range s.segs {
		if g.sym != nil {
			n += int(min64(uint64(len(g.sym.B)), g.sym.Len.hi))
		} else {
			n += len(g.c)
		}
	}
	return n
}

func (so *StrOps) Concat(xs ...*Str) *Str {
	var segs []Seg
	for _, x := range xs {
		for _, g := range x.segs {
			if g.sym == nil && len(segs) > 0 && segs[len(segs)-1].sym == nil {
				segs[len(segs)-1].c += g.c
				continue
			}
			segs = append(segs, g)
		}
	}
	return &Str{segs: segs}
}

func (so *StrOps) Len(s *Str) *Term {
	b := so.b
	var c uint64
	var t *Term
	for _, g := range s.segs {
		if g.sym == nil {
			c += uint64(len(g.c))
		} else if t == nil {
			t = g.sym.Len
		} else {
			t = b.Add(t, g.sym.Len)
		}
	}
	if t == nil {
		return b.BV(c, 64)
	}
	return b.Add(t, b.BV(c, 64))
}

func (so *StrOps) segSym(g Seg) *SymStr {
	if g.sym != nil {
		return g.sym
	}
	b := so.b
	bs := make([]*Term, len(g.c))
	for i := range bs {
		bs[i] = b.BV(uint64(g.c[i]), 8)
	}
	return &SymStr{Len: b.BV(uint64(len(g.c)), 64), B: bs}
}

// at returns y.B[idx] for a symbolic idx (value irrelevant when out of range).
func (so *StrOps) at(y *SymStr, idx *Term) *Term {
	b := so.b
	if idx.IsConst() {
		if idx.val < uint64(len(y.B)) {
			return y.B[idx.val]
		}
		return b.BV(0, 8)
	}
	res := b.BV(0, 8)
	lo, hi := idx.lo, idx.hi
	if hi >= uint64(len(y.B)) {
		hi = uint64(len(y.B)) - 1
	}
	if len(y.B) == 0 || lo > hi {
		return res
	}
	for k := int64(hi); k >= int64(lo); k-- {
		res = b.Ite(b.Eq(idx, b.BV(uint64(k), 64)), y.B[k], res)
	}
	return res
}

// Flat turns the rope into a single atom.
func (so *StrOps) Flat(s *Str) *SymStr {
	b := so.b
	if len(s.segs) == 0 {
		return &SymStr{Len: b.BV(0, 64)}
	}
	if len(s.segs) == 1 {
		return so.segSym(s.segs[0])
	}
	n := s.Cap()
	ys := make([]*SymStr, len(s.segs))
	offs := make([]*Term, len(s.segs))
	off := b.BV(0, 64)
	for k, g := range s.segs {
		ys[k] = so.segSym(g)
		offs[k] = off
		off = b.Add(off, ys[k].Len)
	}
	out := make([]*Term, n)
	for i := 0; i < n; i++ {
		res := b.BV(0, 8)
		for k := len(ys) - 1; k >= 0; k-- {
			y, o := ys[k], offs[k]
			if o.lo > uint64(i) {
				continue
			}
			// candidates: o = i-j for j in 0..cap-1
			for j := len(y.B) - 1; j >= 0; j-- {
				if j > i {
					continue
				}
				ov := uint64(i - j)
				if ov < o.lo || ov > o.hi {
					continue
				}
				cond := b.And(b.Eq(o, b.BV(ov, 64)), b.ULt(b.BV(uint64(j), 64), y.Len))
				res = b.Ite(cond, y.B[j], res)
			}
		}
		out[i] = res
	}
	return &SymStr{Len: off, B: out}
}

// dropCommon strips pointer-identical leading and trailing segments.
func dropCommon(a, c *Str) (*Str, *Str) {
	x, y := a.segs, c.segs
	same := func(p, q Seg) bool {
		if p.sym != nil || q.sym != nil {
			return p.sym == q.sym
		}
		return p.c == q.c
	}
	for len(x) > 0 && len(y) > 0 && same(x[0], y[0]) {
		x, y = x[1:], y[1:]
	}
	for len(x) > 0 && len(y) > 0 && same(x[len(x)-1], y[len(y)-1]) {
		x, y = x[:len(x)-1], y[:len(y)-1]
	}
	return &Str{segs: x}, &Str{segs: y}
}

func (so *StrOps) Eq(a, c *Str) *Term {
	b := so.b
	if x, ok := a.Concrete(); ok {
		if y, ok2 := c.Concrete(); ok2 {
			return b.Bool(x == y)
		}
	}
	a, c = dropCommon(a, c)
	// concrete common prefix of first segments
	if len(a.segs) > 0 && len(c.segs) > 0 && a.segs[0].sym == nil && c.segs[0].sym == nil {
		x, y := a.segs[0].c, c.segs[0].c
		n := len(x)
		if len(y) < n {
			n = len(y)
		}
		if x[:n] != y[:n] {
			return b.False
		}
		a = &Str{segs: append([]Seg{{c: x[n:]}}, a.segs[1:]...)}
		c = &Str{segs: append([]Seg{{c: y[n:]}}, c.segs[1:]...)}
		a, c = so.Concat(a), so.Concat(c)
	}
	fa, fc := so.Flat(a), so.Flat(c)
	conj := []*Term{b.Eq(fa.Len, fc.Len)}
	if conj[0].IsFalse() {
		return b.False
	}
	n := len(fa.B)
	if len(fc.B) < n {
		n = len(fc.B)
	}
	for i := 0; i < n; i++ {
		// i < len → bytes equal
		conj = append(conj, b.Implies(b.ULt(b.BV(uint64(i), 64), fa.Len), b.Eq(fa.B[i], fc.B[i])))
	}
	return b.And(conj...)
}

// ByteAt returns s[i]; the caller is responsible for the bounds check.
func (so *StrOps) ByteAt(s *Str, i *Term) *Term {
	if i.IsConst() {
		// walk concrete-length leading segments
		pos := i.val
		for _, g := range s.segs {
			if g.sym == nil {
				if pos < uint64(len(g.c)) {
					return so.b.BV(uint64(g.c[pos]), 8)
				}
				pos -= uint64(len(g.c))
				continue
			}
			if g.sym.Len.IsConst() {
				if pos < g.sym.Len.val {
					return g.sym.B[pos]
				}
				pos -= g.sym.Len.val
				continue
			}
			break
		}
	}
	return so.at(so.Flat(s), i)
}

// Slice returns s[lo:hi]; bounds are checked by the caller.
func (so *StrOps) Slice(s *Str, lo, hi *Term) *Str {
	b := so.b
	if x, ok := s.Concrete(); ok && lo.IsConst() && hi.IsConst() {
		return so.Const(x[lo.val:hi.val])
	}
	total := so.Len(s)
	// s[k:] with concrete k inside a concrete leading segment
	if lo.IsConst() && hi == total {
		k := lo.val
		if k == 0 {
			return s
		}
		if len(s.segs) > 0 && s.segs[0].sym == nil && uint64(len(s.segs[0].c)) >= k {
			rest := append([]Seg{{c: s.segs[0].c[k:]}}, s.segs[1:]...)
			return so.Concat(&Str{segs: rest})
		}
	}
	// s[:k] with concrete k inside a concrete leading segment
	if lo.IsConst() && lo.val == 0 && hi.IsConst() && len(s.segs) > 0 && s.segs[0].sym == nil && uint64(len(s.segs[0].c)) >= hi.val {
		return so.Const(s.segs[0].c[:hi.val])
	}
	f := so.Flat(s)
	n := len(f.B)
	newLen := b.Sub(hi, lo)
	maxLen := n - int(lo.lo)
	if hi.hi < uint64(n) && int(hi.hi)-int(lo.lo) < maxLen {
		maxLen = int(hi.hi) - int(lo.lo)
	}
	if maxLen < 0 {
		maxLen = 0
	}
	out := make([]*Term, maxLen)
	for j := 0; j < maxLen; j++ {
		if lo.IsConst() {
			out[j] = f.B[int(lo.val)+j]
		} else {
			out[j] = so.at(f, b.Add(lo, b.BV(uint64(j), 64)))
		}
	}
	// narrow the interval of newLen when possible
	if newLen.hi > uint64(maxLen) {
		// value is ≤ maxLen on every path where the bounds checks passed; keep a
		// clamped copy so that later interval reasoning stays sound.
		newLen = b.ClampULe(newLen, uint64(maxLen))
	}
	return so.FromSym(&SymStr{Len: newLen, B: out})
}

// MapBytes applies a per-byte function segment-wise.
func (so *StrOps) MapBytes(s *Str, fc func(byte) byte, ft func(*Term) *Term) *Str {
	segs := make([]Seg, len(s.segs))
	for i, g := range s.segs {
		if g.sym == nil {
			bs := []byte(g.c)
			for j := range bs {
				bs[j] = fc(bs[j])
			}
			segs[i] = Seg{c: string(bs)}
		} else {
			nb := make([]*Term, len(g.sym.B))
			for j, t := range g.sym.B {
				if t.IsConst() {
					nb[j] = so.b.BV(uint64(fc(byte(t.val))), 8)
				} else {
					nb[j] = ft(t)
				}
			}
			segs[i] = Seg{sym: &SymStr{Len: g.sym.Len, B: nb}}
		}
	}
	return &Str{segs: segs}
}

func (so *StrOps) inRange(t *Term, lo, hi byte) *Term {
	b := so.b
	return b.And(b.ULe(b.BV(uint64(lo), 8), t), b.ULe(t, b.BV(uint64(hi), 8)))
}

func (so *StrOps) ToLower(s *Str) *Str {
	b := so.b
	return so.MapBytes(s, func(c byte) byte {
		if c >= 'A' && c <= 'Z' {
			return c + 32
		}
		return c
	}, func(t *Term) *Term {
		return b.Ite(so.inRange(t, 'A', 'Z'), b.Add(t, b.BV(32, 8)), t)
	})
}

func (so *StrOps) ToUpper(s *Str) *Str {
	b := so.b
	return so.MapBytes(s, func(c byte) byte {
		if c >= 'a' && c <= 'z' {
			return c - 32
		}
		return c
	}, func(t *Term) *Term {
		return b.Ite(so.inRange(t, 'a', 'z'), b.Sub(t, b.BV(32, 8)), t)
	})
}

// AllBytes returns the conjunction of pred over every live byte of s (segment-wise).
func (so *StrOps) AllBytes(s *Str, pc func(byte) bool, pt func(*Term) *Term) *Term {
	b := so.b
	var conj []*Term
	for _, g := range s.segs {
		if g.sym == nil {
			for i := 0; i < len(g.c); i++ {
				if !pc(g.c[i]) {
					return b.False
				}
			}
			continue
		}
		for j, t := range g.sym.B {
			conj = append(conj, b.Implies(b.ULt(b.BV(uint64(j), 64), g.sym.Len), pt(t)))
		}
	}
	return b.And(conj...)
}

// IsASCII: all bytes < 0x80.
func (so *StrOps) IsASCII(s *Str) *Term {
	b := so.b
	return so.AllBytes(s, func(c byte) bool { return c < 0x80 }, func(t *Term) *Term { return b.ULt(t, b.BV(0x80, 8)) })
}

// matchAt: sub occurs in f at position i (i concrete).
func (so *StrOps) matchAt(f, sub *SymStr, i int) *Term {
	b := so.b
	// i + len(sub) <= len(f)
	conj := []*Term{b.ULe(b.Add(b.BV(uint64(i), 64), sub.Len), f.Len)}
	for j := 0; j < len(sub.B); j++ {
		inSub := b.ULt(b.BV(uint64(j), 64), sub.Len)
		if i+j < len(f.B) {
			conj = append(conj, b.Implies(inSub, b.Eq(f.B[i+j], sub.B[j])))
		} else {
			conj = append(conj, b.Not(inSub))
		}
	}
	return b.And(conj...)
}

// Index returns strings.Index(s, sub) as a signed BV64 (-1 when absent).
func (so *StrOps) Index(s, sub *Str) *Term {
	b := so.b
	if x, ok := s.Concrete(); ok {
		if y, ok2 := sub.Concrete(); ok2 {
			return b.BV(uint64(int64(strings.Index(x, y))), 64)
		}
	}
	f, g := so.Flat(s), so.Flat(sub)
	res := b.BV(^uint64(0), 64)
	for i := len(f.B); i >= 0; i-- {
		res = b.Ite(so.matchAt(f, g, i), b.BV(uint64(i), 64), res)
	}
	return res
}

func (so *StrOps) Contains(s, sub *Str) *Term {
	b := so.b
	if x, ok := s.Concrete(); ok {
		if y, ok2 := sub.Concrete(); ok2 {
			return b.Bool(strings.Contains(x, y))
		}
	}
	f, g := so.Flat(s), so.Flat(sub)
	var dis []*Term
	for i := 0; i <= len(f.B); i++ {
		dis = append(dis, so.matchAt(f, g, i))
	}
	return b.Or(dis...)
}

// ContainsByte is segment-wise and cheap.
func (so *StrOps) ContainsByte(s *Str, c byte) *Term {
	b := so.b
	return b.Not(so.AllBytes(s, func(x byte) bool { return x != c }, func(t *Term) *Term { return b.Ne(t, b.BV(uint64(c), 8)) }))
}

func (so *StrOps) IndexByte(s *Str, c *Term) *Term {
	b := so.b
	f := so.Flat(s)
	res := b.BV(^uint64(0), 64)
	for i := len(f.B) - 1; i >= 0; i-- {
		hit := b.And(b.ULt(b.BV(uint64(i), 64), f.Len), b.Eq(f.B[i], c))
		res = b.Ite(hit, b.BV(uint64(i), 64), res)
	}
	return res
}

func (so *StrOps) HasPrefix(s, p *Str) *Term {
	b := so.b
	if y, ok := p.Concrete(); ok {
		if y == "" {
			return b.True
		}
		if x, ok2 := s.Concrete(); ok2 {
			return b.Bool(strings.HasPrefix(x, y))
		}
		// leading concrete segment decides?
		if len(s.segs) > 0 && s.segs[0].sym == nil {
			x := s.segs[0].c
			n := len(x)
			if len(y) < n {
				n = len(y)
			}
			if x[:n] != y[:n] {
				return b.False
			}
			if len(y) <= len(x) {
				return b.True
			}
		}
	}
	f, g := so.Flat(s), so.Flat(p)
	return so.matchAt(f, g, 0)
}

func (so *StrOps) HasSuffix(s, p *Str) *Term {
	b := so.b
	if y, ok := p.Concrete(); ok {
		if y == "" {
			return b.True
		}
		if x, ok2 := s.Concrete(); ok2 {
			return b.Bool(strings.HasSuffix(x, y))
		}
	}
	f, g := so.Flat(s), so.Flat(p)
	var dis []*Term
	for i := 0; i <= len(f.B); i++ {
		// match at i and i + len(p) == len(s)
		dis = append(dis, b.And(b.Eq(b.Add(b.BV(uint64(i), 64), g.Len), f.Len), so.matchAt(f, g, i)))
	}
	return b.Or(dis...)
}

// Ite builds a string that is a when c holds and e otherwise.
func (so *StrOps) Ite(c *Term, a, e *Str) *Str {
	b := so.b
	if c.IsTrue() {
		return a
	}
	if c.IsFalse() {
		return e
	}
	if so.Eq(a, e).IsTrue() {
		return a
	}
	fa, fe := so.Flat(a), so.Flat(e)
	n := len(fa.B)
	if len(fe.B) > n {
		n = len(fe.B)
	}
	out := make([]*Term, n)
	z := b.BV(0, 8)
	for i := 0; i < n; i++ {
		x, y := z, z
		if i < len(fa.B) {
			x = fa.B[i]
		}
		if i < len(fe.B) {
			y = fe.B[i]
		}
		out[i] = b.Ite(c, x, y)
	}
	return so.FromSym(&SymStr{Len: b.Ite(c, fa.Len, fe.Len), B: out})
}

// Lt is lexicographic byte-wise comparison a < c.
func (so *StrOps) Lt(a, c *Str) *Term {
	b := so.b
	if x, ok := a.Concrete(); ok {
		if y, ok2 := c.Concrete(); ok2 {
			return b.Bool(x < y)
		}
	}
	fa, fc := so.Flat(a), so.Flat(c)
	n := len(fa.B)
	if len(fc.B) > n {
		n = len(fc.B)
	}
	// process from the end: lt_i = "suffixes from i compare less"
	// at position i: if i >= len(a): a exhausted → less iff i < len(c)
	res := b.False
	for i := n; i >= 0; i-- {
		bi := b.BV(uint64(i), 64)
		aEnd := b.ULe(fa.Len, bi)
		cEnd := b.ULe(fc.Len, bi)
		var x, y *Term
		if i < len(fa.B) {
			x = fa.B[i]
		} else {
			x = b.BV(0, 8)
		}
		if i < len(fc.B) {
			y = fc.B[i]
		} else {
			y = b.BV(0, 8)
		}
		// if aEnd: !cEnd ; else if cEnd: false ; else if x<y true; x>y false; else res
		inner := b.Ite(b.ULt(x, y), b.True, b.Ite(b.ULt(y, x), b.False, res))
		res = b.Ite(aEnd, b.Not(cEnd), b.Ite(cEnd, b.False, inner))
	}
	return res
}

// sepPositions returns, for a flat string, isSep_i (live and equal to sep) and
// cnt_i = number of separators strictly before i (BV8).
func (so *StrOps) sepInfo(f *SymStr, sep byte) (isSep []*Term, cnt []*Term, total *Term) {
	b := so.b
	n := len(f.B)
	isSep = make([]*Term, n)
	cnt = make([]*Term, n+1)
	c := b.BV(0, 8)
	for i := 0; i < n; i++ {
		cnt[i] = c
		isSep[i] = b.And(b.ULt(b.BV(uint64(i), 64), f.Len), b.Eq(f.B[i], b.BV(uint64(sep), 8)))
		c = b.Add(c, b.Ite(isSep[i], b.BV(1, 8), b.BV(0, 8)))
	}
	cnt[n] = c
	return isSep, cnt, c
}

// SplitParts computes the nparts pieces of s split on sep, assuming the
// caller has established that s contains exactly nparts-1 separators.
func (so *StrOps) SplitParts(s *Str, sep byte, nparts int) []*Str {
	b := so.b
	f := so.Flat(s)
	n := len(f.B)
	isSep, cnt, _ := so.sepInfo(f, sep)
	// pos[k] for k=1..nparts-1: index of k-th separator
	bounds := make([]*Term, 0, nparts+1) // start positions: bounds[k] = start of part k; ends = sepPos
	sepPos := make([]*Term, nparts)      // sepPos[k] = index of (k+1)-th separator, k<nparts-1; last = len
	for k := 0; k < nparts-1; k++ {
		p := b.BV(uint64(n), 64)
		for i := n - 1; i >= 0; i-- {
			p = b.Ite(b.And(isSep[i], b.Eq(cnt[i], b.BV(uint64(k), 8))), b.BV(uint64(i), 64), p)
		}
		sepPos[k] = p
	}
	sepPos[nparts-1] = f.Len
	bounds = append(bounds, b.BV(0, 64))
	for k := 0; k < nparts-1; k++ {
		bounds = append(bounds, b.Add(sepPos[k], b.BV(1, 64)))
	}
	parts := make([]*Str, nparts)
	for k := 0; k < nparts; k++ {
		parts[k] = so.Slice(so.FromSym(f), bounds[k], sepPos[k])
	}
	return parts
}

// CountByte returns the number of occurrences of sep (BV8).
func (so *StrOps) CountByte(s *Str, sep byte) *Term {
	f := so.Flat(s)
	_, _, total := so.sepInfo(f, sep)
	return total
}

func (s *Str) String() string {
	var sb strings.Builder
	for _, g := range s.segs {
		if g.sym == nil {
			fmt.Fprintf(&sb, "%q", g.c)
		} else {
			fmt.Fprintf(&sb, "<sym cap=%d>", len(g.sym.B))
		}
	}
	if len(s.segs) == 0 {
		return `""`
	}
	return sb.String()
}

// evalStr evaluates a string under a model.
func evalStr(s *Str, env map[string]uint64, memo map[int]uint64) string {
	var sb strings.Builder
	for _, g := range s.segs {
		if g.sym == nil {
			sb.WriteString(g.c)
			continue
		}
		n := evalTerm(g.sym.Len, env, memo)
		if n > uint64(len(g.sym.B)) {
			n = uint64(len(g.sym.B))
		}
		for i := uint64(0); i < n; i++ {
			sb.WriteByte(byte(evalTerm(g.sym.B[i], env, memo)))
		}
	}
	return sb.String()
}

// ReplaceConst is strings.Replace(s, old, nw, -1) for concrete, non-empty old
// and concrete nw: greedy, left to right, non-overlapping, byte-exact.
func (so *StrOps) ReplaceConst(s *Str, old, nw string) *Str {
	b := so.b
	if x, ok := s.Concrete(); ok {
		return so.Const(strings.Replace(x, old, nw, -1))
	}
	f := so.Flat(s)
	g := so.Flat(so.Const(old))
	n, k := len(f.B), len(old)
	start := make([]*Term, n)
	covered := make([]*Term, n)
	for i := 0; i < n; i++ {
		cov := b.False
		for j := i - k + 1; j < i; j++ {
			if j >= 0 {
				cov = b.Or(cov, start[j])
			}
		}
		covered[i] = cov
		start[i] = b.And(so.matchAt(f, g, i), b.Not(cov))
	}
	capOut := n
	if len(nw) > k {
		capOut = n/k*len(nw) + n%k
	}
	out := make([]*Term, capOut)
	for p := range out {
		out[p] = b.BV(0, 8)
	}
	// pos[i]: number of bytes emitted before input position i
	pos := b.BV(0, 64)
	type unit struct {
		pos  *Term
		cond *Term
		bt   *Term
		off  int
	}
	var units []unit
	for i := 0; i < n; i++ {
		live := b.ULt(b.BV(uint64(i), 64), f.Len)
		plain := b.And(live, b.Not(start[i]), b.Not(covered[i]))
		units = append(units, unit{pos, plain, f.B[i], 0})
		for q := 0; q < len(nw); q++ {
			units = append(units, unit{pos, start[i], b.BV(uint64(nw[q]), 8), q})
		}
		pos = b.Add(pos, b.Ite(start[i], b.BV(uint64(len(nw)), 64), b.Ite(plain, b.BV(1, 64), b.BV(0, 64))))
	}
	for p := 0; p < capOut; p++ {
		for u := len(units) - 1; u >= 0; u-- {
			x := units[u]
			if x.cond.IsFalse() || p < x.off {
				continue
			}
			out[p] = b.Ite(b.And(x.cond, b.Eq(x.pos, b.BV(uint64(p-x.off), 64))), x.bt, out[p])
		}
	}
	return so.FromSym(&SymStr{Len: pos, B: out})
}
