package main

import (
	"fmt"
	"go/types"
	"math/big"
	"time"
	"strings"

	"golang.org/x/tools/go/ssa"
)

const (
	maxDur = uint64(1<<63 - 1)
	minDur = uint64(1 << 63)
)

func (in *Interp) timeNanos(v *Term) TimeV { return TimeV{Kind: TimeNanos, V: v} }

// subSat computes a-b on int64 with saturation, as time.Time.Sub does.
func (in *Interp) subSat(a, c *Term) *Term {
	b := in.b
	d := b.Sub(a, c)
	{
		// no overflow when the signed ranges prove the exact difference fits
		lo := new(big.Int).Sub(big.NewInt(a.slo), big.NewInt(c.shi))
		hi := new(big.Int).Sub(big.NewInt(a.shi), big.NewInt(c.slo))
		if lo.IsInt64() && hi.IsInt64() {
			return d
		}
	}
	// overflow iff a and c have different signs and d's sign differs from a's
	sa := b.SLt(a, b.BV(0, 64))
	sc := b.SLt(c, b.BV(0, 64))
	sd := b.SLt(d, b.BV(0, 64))
	ovf := b.And(b.Ne(sa, sc), b.Ne(sd, sa))
	if ovf.IsFalse() {
		return d
	}
	return b.Ite(ovf, b.Ite(sa, b.BV(minDur, 64), b.BV(maxDur, 64)), d)
}

// zflag returns the "is the zero time" condition of t.
func (in *Interp) zflag(t TimeV) *Term {
	if t.Kind == TimeZero {
		return in.b.True
	}
	if t.Z != nil {
		return t.Z
	}
	return in.b.False
}

func (in *Interp) timeSub(t, u TimeV) *Term {
	b := in.b
	if (t.Kind != TimeZero && t.Z != nil) || (u.Kind != TimeZero && u.Z != nil) {
		tz, uz := in.zflag(t), in.zflag(u)
		t2, u2 := t, u
		t2.Z, u2.Z = nil, nil
		base := b.BV(0, 64)
		if t.Kind != TimeZero && u.Kind != TimeZero {
			base = in.timeSub(t2, u2)
		}
		return b.Ite(b.And(tz, uz), b.BV(0, 64), b.Ite(tz, b.BV(minDur, 64), b.Ite(uz, b.BV(maxDur, 64), base)))
	}
	switch {
	case t.Kind == TimeNanos && u.Kind == TimeNanos:
		return in.subSat(t.V, u.V)
	case t.Kind == TimeZero && u.Kind == TimeZero:
		return b.BV(0, 64)
	case t.Kind == TimeZero:
		// year 1 is more than 292 years before any unix-nanosecond instant
		return b.BV(minDur, 64)
	case u.Kind == TimeZero:
		return b.BV(maxDur, 64)
	case t.Kind == TimeSecs && u.Kind == TimeSecs:
		in.note("uf:time.Sub(secs)")
		return in.uf("time.subsecs", 64, t.V, u.V)
	}
	in.note("uf:time.Sub(mixed)")
	return in.uf(fmt.Sprintf("time.submixed%d%d", t.Kind, u.Kind), 64, t.V, u.V)
}

func (in *Interp) timeBefore(t, u TimeV) *Term {
	b := in.b
	if (t.Kind != TimeZero && t.Z != nil) || (u.Kind != TimeZero && u.Z != nil) {
		tz, uz := in.zflag(t), in.zflag(u)
		t2, u2 := t, u
		t2.Z, u2.Z = nil, nil
		base := b.False
		if t.Kind != TimeZero && u.Kind != TimeZero {
			base = in.timeBefore(t2, u2)
		}
		return b.Ite(b.And(tz, uz), b.False, b.Ite(tz, b.True, b.Ite(uz, b.False, base)))
	}
	switch {
	case t.Kind == u.Kind && t.Kind != TimeZero:
		return b.SLt(t.V, u.V)
	case t.Kind == TimeZero && u.Kind == TimeZero:
		return b.False
	case t.Kind == TimeZero:
		return b.True
	case u.Kind == TimeZero:
		return b.False
	}
	return in.uf(fmt.Sprintf("time.beforemixed%d%d", t.Kind, u.Kind), 0, t.V, u.V)
}

func (in *Interp) timeEqual(t, u TimeV) *Term {
	b := in.b
	if (t.Kind != TimeZero && t.Z != nil) || (u.Kind != TimeZero && u.Z != nil) {
		tz, uz := in.zflag(t), in.zflag(u)
		t2, u2 := t, u
		t2.Z, u2.Z = nil, nil
		base := b.False
		if t.Kind != TimeZero && u.Kind != TimeZero {
			base = in.timeEqual(t2, u2)
		}
		return b.Ite(b.And(tz, uz), b.True, b.Ite(b.Or(tz, uz), b.False, base))
	}
	if t.Kind == u.Kind {
		if t.Kind == TimeZero {
			return b.True
		}
		return b.Eq(t.V, u.V)
	}
	if t.Kind == TimeZero || u.Kind == TimeZero {
		return b.False
	}
	return in.uf(fmt.Sprintf("time.eqmixed%d%d", t.Kind, u.Kind), 0, t.V, u.V)
}

func (in *Interp) timeStr(name string, t TimeV) *Str {
	return in.ufStr(name, 1, 40, in.isCleanByte, nil, []*Term{in.b.BV(uint64(t.Kind), 8), t.V, in.zflag(t)})
}

func registerTime(e *Engine) {
	reg := func(name string, f IntrinsicFn) { e.intr[name] = f }
	reg("time.Now", func(in *Interp, _ *frame, _ *ssa.Function, _ []Value, _ tokenPos) Value {
		if in.env != nil && in.env.Now != nil {
			return in.env.Now(in)
		}
		if t, ok := in.ghost["now"]; ok {
			return t
		}
		if in.drawCursor < len(in.draws) {
			// re-execution after verifDrawRewind: inputs are replayed, the wall clock is not —
			// a second execution of the same code reads a different, arbitrary instant
			in.drawCursor++
			in.nowReplays++
			sym := in.b.Sym(fmt.Sprintf("d%d_now_again%d", in.drawCursor-1, in.nowReplays), 64)
			in.constrain(in.b.And(in.b.SLt(sym, in.b.BV(1<<62, 64)), in.b.SLt(in.b.BV(uint64(1<<63)+uint64(1<<62), 64), sym)))
			return in.timeNanos(sym)
		}
		in.drawCursor++
		n := len(in.draws)
		sym := in.b.Sym(fmt.Sprintf("d%d_now", n), 64)
		in.draws = append(in.draws, Draw{Kind: "now", Syms: []*Term{sym}, W: 64})
		// |n| < 2^62
		in.constrain(in.b.And(in.b.SLt(sym, in.b.BV(1<<62, 64)), in.b.SLt(in.b.BV(uint64(1<<63)+uint64(1<<62), 64), sym)))
		return in.timeNanos(sym)
	})
	reg("time.Unix", func(in *Interp, _ *frame, _ *ssa.Function, args []Value, _ tokenPos) Value {
		s, n := args[0].(Sc).T, args[1].(Sc).T
		if s.IsConst() && s.val == 0 {
			return in.timeNanos(n)
		}
		if n.IsConst() && n.val == 0 {
			return TimeV{Kind: TimeSecs, V: s}
		}
		in.unsupported("time.Unix with both seconds and nanoseconds symbolic")
		return nil
	})
	reg("time.Since", func(in *Interp, c *frame, fn *ssa.Function, args []Value, pos tokenPos) Value {
		now := e.intr["time.Now"](in, c, fn, nil, pos).(TimeV)
		return Sc{in.timeSub(now, args[0].(TimeV))}
	})
	reg("(time.Time).Sub", func(in *Interp, _ *frame, _ *ssa.Function, args []Value, _ tokenPos) Value {
		return Sc{in.timeSub(args[0].(TimeV), args[1].(TimeV))}
	})
	reg("(time.Time).Add", func(in *Interp, _ *frame, _ *ssa.Function, args []Value, _ tokenPos) Value {
		t := args[0].(TimeV)
		d := args[1].(Sc).T
		switch t.Kind {
		case TimeNanos:
			if t.Z != nil {
				return in.timeNanos(in.b.Ite(t.Z, in.uf("time.addzero", 64, d), in.b.Add(t.V, d)))
			}
			return in.timeNanos(in.b.Add(t.V, d))
		case TimeZero:
			if d.IsConst() && d.val == 0 {
				return t
			}
		}
		in.note("uf:time.Add")
		return TimeV{Kind: TimeNanos, V: in.uf(fmt.Sprintf("time.add%d", t.Kind), 64, t.V, d)}
	})
	reg("(time.Time).After", func(in *Interp, _ *frame, _ *ssa.Function, args []Value, _ tokenPos) Value {
		return Sc{in.timeBefore(args[1].(TimeV), args[0].(TimeV))}
	})
	reg("(time.Time).Before", func(in *Interp, _ *frame, _ *ssa.Function, args []Value, _ tokenPos) Value {
		return Sc{in.timeBefore(args[0].(TimeV), args[1].(TimeV))}
	})
	reg("(time.Time).Equal", func(in *Interp, _ *frame, _ *ssa.Function, args []Value, _ tokenPos) Value {
		return Sc{in.timeEqual(args[0].(TimeV), args[1].(TimeV))}
	})
	reg("(time.Time).IsZero", func(in *Interp, _ *frame, _ *ssa.Function, args []Value, _ tokenPos) Value {
		// time.Unix values are never the zero time within the modelled range
		return Sc{in.zflag(args[0].(TimeV))}
	})
	reg("(time.Time).UnixNano", func(in *Interp, _ *frame, _ *ssa.Function, args []Value, _ tokenPos) Value {
		t := args[0].(TimeV)
		b := in.b
		zc := b.BV(uint64(zeroTimeUnixNano()), 64)
		switch t.Kind {
		case TimeNanos:
			return Sc{b.Ite(in.zflag(t), zc, t.V)}
		case TimeSecs:
			return Sc{b.Ite(in.zflag(t), zc, b.Mul(t.V, b.BV(1000000000, 64)))}
		}
		// zero time: the real result is an overflowed constant
		return Sc{b.BV(uint64(zeroTimeUnixNano()), 64)}
	})
	reg("(time.Time).Unix", func(in *Interp, _ *frame, _ *ssa.Function, args []Value, _ tokenPos) Value {
		t := args[0].(TimeV)
		switch t.Kind {
		case TimeSecs:
			return Sc{t.V}
		case TimeNanos:
			if t.V.IsConst() {
				v := signExt(t.V.val, 64)
				q := v / 1000000000
				if v%1000000000 < 0 {
					q--
				}
				return Sc{in.b.BV(uint64(q), 64)}
			}
			return Sc{in.uf("time.Unix", 64, t.V)}
		}
		return Sc{in.b.BV(uint64(zeroTimeUnix()), 64)}
	})
	ident := func(in *Interp, _ *frame, _ *ssa.Function, args []Value, _ tokenPos) Value { return args[0] }
	reg("(time.Time).UTC", ident)
	reg("(time.Time).Local", ident)
	reg("(time.Time).Round", ident)
	reg("(time.Time).Truncate", ident)
	reg("(time.Time).String", func(in *Interp, _ *frame, _ *ssa.Function, args []Value, _ tokenPos) Value {
		return in.timeStr("time.String", args[0].(TimeV))
	})
	reg("(time.Time).Format", func(in *Interp, _ *frame, _ *ssa.Function, args []Value, _ tokenPos) Value {
		return in.timeStr("time.Format", args[0].(TimeV))
	})
	reg("(time.Duration).String", func(in *Interp, _ *frame, _ *ssa.Function, args []Value, _ tokenPos) Value {
		d := args[0].(Sc).T
		if d.IsConst() {
			return in.str.Const(time.Duration(int64(d.val)).String())
		}
		res := in.ufStr("Duration.String", 1, 24, in.isCleanByte, nil, []*Term{d})
		in.regInverse(res, invRec{kind: "dur", t: d})
		return res
	})
	reg("(time.Duration).Seconds", func(in *Interp, _ *frame, _ *ssa.Function, args []Value, _ tokenPos) Value {
		return Sc{in.uf("Duration.Seconds", 64, args[0].(Sc).T)}
	})
	reg("time.ParseDuration", func(in *Interp, _ *frame, _ *ssa.Function, args []Value, _ tokenPos) Value {
		s := args[0].(*Str)
		if c, isC := s.Concrete(); isC {
			d, err := time.ParseDuration(c)
			if err != nil {
				return TupleV{E: []Value{Sc{in.b.BV(0, 64)}, in.newError(in.str.Const(err.Error()))}}
			}
			return TupleV{E: []Value{Sc{in.b.BV(uint64(d), 64)}, IfaceV{}}}
		}
		if r, found := in.lookupInverse(s, "dur"); found {
			// ParseDuration(Duration.String(d)) == d
			return TupleV{E: []Value{Sc{r.t}, IfaceV{}}}
		}
		keys := in.strTerms(s)
		ok := in.uf("ParseDuration.ok", 0, keys...)
		val := in.uf("ParseDuration.val", 64, keys...)
		// exact on the sub-language <1..4 decimal digits>"s" (whole seconds); uninterpreted elsewhere.
		// Counterexample models are asked to stay inside the sub-language so that they replay natively.
		b := in.b
		f := in.str.Flat(s)
		simple := b.False
		for k := 1; k <= 4 && k < len(f.B); k++ {
			cond := []*Term{b.Eq(f.Len, b.BV(uint64(k+1), 64)), b.Eq(f.B[k], b.BV('s', 8))}
			num := b.BV(0, 64)
			for j := 0; j < k; j++ {
				cond = append(cond, b.ULe(b.BV('0', 8), f.B[j]), b.ULe(f.B[j], b.BV('9', 8)))
				num = b.Add(b.Mul(num, b.BV(10, 64)), b.ZExt(b.Sub(f.B[j], b.BV('0', 8)), 64))
			}
			is := b.And(cond...)
			in.constrain(b.Implies(is, b.And(ok, b.Eq(val, b.Mul(num, b.BV(1000000000, 64))))))
			simple = b.Or(simple, is)
		}
		in.prefs = append(in.prefs, b.Implies(ok, simple))
		if in.branch(ok) {
			return TupleV{E: []Value{Sc{val}, IfaceV{}}}
		}
		return TupleV{E: []Value{Sc{in.b.BV(0, 64)}, in.newError(in.str.Const("time: invalid duration"))}}
	})
	reg("time.Sleep", func(in *Interp, _ *frame, _ *ssa.Function, args []Value, _ tokenPos) Value {
		if in.env != nil && in.env.Sleep != nil {
			in.env.Sleep(in)
		}
		return nil
	})
	reg("math.Pow", func(in *Interp, _ *frame, _ *ssa.Function, args []Value, _ tokenPos) Value {
		return Sc{in.uf("math.Pow", 64, args[0].(Sc).T, args[1].(Sc).T)}
	})
}

func zeroTimeUnix() int64 { return -62135596800 }
func zeroTimeUnixNano() int64 {
	// time.Time{}.UnixNano() (overflowed; implementation-defined constant)
	return -6795364578871345152
}

// ---- sync ----

func lockKey(p PtrV) string {
	var sb strings.Builder
	fmt.Fprintf(&sb, "%d", p.obj.id)
	for _, e := range p.path {
		fmt.Fprintf(&sb, ".%d", e.idx)
	}
	return sb.String()
}

type lockState struct {
	readers int
	writer  bool
	name    string
}

func (in *Interp) lockOf(p PtrV, pos tokenPos) *lockState {
	if p.IsNil() {
		in.goPanicf(pos, "nilderef", "lock of nil mutex")
	}
	if in.lockTab == nil {
		in.lockTab = map[string]*lockState{}
	}
	k := lockKey(p)
	ls, ok := in.lockTab[k]
	if !ok {
		ls = &lockState{name: in.describePtr(p)}
		in.lockTab[k] = ls
	}
	return ls
}

func (in *Interp) describePtr(p PtrV) string {
	name := p.obj.site
	t := p.obj.typ
	for _, e := range p.path {
		if t == nil {
			break
		}
		switch u := t.Underlying().(type) {
		case *types.Struct:
			name += "." + u.Field(e.idx).Name()
			t = u.Field(e.idx).Type()
		case *types.Array:
			name += "[]"
			t = u.Elem()
		default:
			t = nil
		}
	}
	return name
}

func registerSync(e *Engine) {
	reg := func(name string, f IntrinsicFn) { e.intr[name] = f }
	lock := func(write bool) IntrinsicFn {
		return func(in *Interp, _ *frame, _ *ssa.Function, args []Value, pos tokenPos) Value {
			ls := in.lockOf(args[0].(PtrV), pos)
			if in.env != nil && in.env.BeforeLock != nil {
				in.env.BeforeLock(in, ls, write)
			}
			if write {
				if ls.writer || ls.readers > 0 {
					panic(&pathEnd{kind: "deadlock", msg: "Lock of held mutex " + ls.name + " at " + in.posStr(pos)})
				}
				ls.writer = true
			} else {
				if ls.writer {
					panic(&pathEnd{kind: "deadlock", msg: "RLock of write-held mutex " + ls.name + " at " + in.posStr(pos)})
				}
				ls.readers++
			}
			return nil
		}
	}
	unlock := func(write bool) IntrinsicFn {
		return func(in *Interp, _ *frame, _ *ssa.Function, args []Value, pos tokenPos) Value {
			ls := in.lockOf(args[0].(PtrV), pos)
			if write {
				if !ls.writer {
					in.goPanicf(pos, "unlock", "sync: Unlock of unlocked RWMutex")
				}
				ls.writer = false
			} else {
				if ls.readers == 0 {
					in.goPanicf(pos, "unlock", "sync: RUnlock of unlocked RWMutex")
				}
				ls.readers--
			}
			if in.env != nil && in.env.AfterUnlock != nil {
				in.env.AfterUnlock(in, ls, write)
			}
			in.maybeYield(pos)
			return nil
		}
	}
	reg("(*sync.RWMutex).Lock", lock(true))
	reg("(*sync.RWMutex).Unlock", unlock(true))
	reg("(*sync.RWMutex).RLock", lock(false))
	reg("(*sync.RWMutex).RUnlock", unlock(false))
	reg("(*sync.Mutex).Lock", lock(true))
	reg("(*sync.Mutex).Unlock", unlock(true))
	reg("sync.NewCond", func(in *Interp, _ *frame, _ *ssa.Function, args []Value, pos tokenPos) Value {
		o := in.newObj(OpaqueV{Tag: "cond", Data: &condModel{locker: args[0]}}, nil, "sync.Cond")
		o.heap = true
		return PtrV{obj: o}
	})
	reg("(*sync.Cond).Broadcast", func(in *Interp, _ *frame, _ *ssa.Function, args []Value, pos tokenPos) Value {
		p := args[0].(PtrV)
		if p.IsNil() {
			in.goPanicf(pos, "nilderef", "nil *sync.Cond")
		}
		cm := p.obj.val.(OpaqueV).Data.(*condModel)
		cm.broadcasts++
		return nil
	})
	reg("(*sync.Cond).Signal", func(in *Interp, _ *frame, _ *ssa.Function, args []Value, pos tokenPos) Value {
		p := args[0].(PtrV)
		cm := p.obj.val.(OpaqueV).Data.(*condModel)
		cm.broadcasts++
		return nil
	})
	reg("(*sync.Cond).Wait", func(in *Interp, caller *frame, _ *ssa.Function, args []Value, pos tokenPos) Value {
		p := args[0].(PtrV)
		if p.IsNil() {
			in.goPanicf(pos, "nilderef", "nil *sync.Cond")
		}
		cm := p.obj.val.(OpaqueV).Data.(*condModel)
		hook, ok := in.ghost["env:yield"]
		if !ok {
			in.unsupported("sync.Cond.Wait without an environment (verifSetEnv)")
		}
		// Wait: unlock, sleep until a Broadcast, relock
		var lp PtrV
		switch l := cm.locker.(type) {
		case IfaceV:
			lp = l.V.(PtrV)
		case PtrV:
			lp = l
		}
		ls := in.lockOf(lp, pos)
		if !ls.writer {
			in.goPanicf(pos, "unlock", "sync: Cond.Wait with unlocked mutex")
		}
		ls.writer = false
		before := cm.broadcasts
		in.inYield = true
		in.callValue(caller, hook, nil, pos)
		in.inYield = false
		if cm.broadcasts == before {
			// nobody woke the waiter within the environment's budget: terminal blocked state
			if bh, ok := in.ghost["env:blocked"]; ok {
				in.inYield = true
				in.callValue(caller, bh, nil, pos)
				in.inYield = false
			}
			panic(&pathEnd{kind: "done", msg: "blocked in Cond.Wait"})
		}
		if ls.writer || ls.readers > 0 {
			panic(&pathEnd{kind: "deadlock", msg: "Cond.Wait cannot reacquire " + ls.name})
		}
		ls.writer = true
		return nil
	})
	reg("(*sync.Once).Do", func(in *Interp, caller *frame, _ *ssa.Function, args []Value, pos tokenPos) Value {
		p := args[0].(PtrV)
		om := in.load(p, pos).(OpaqueV).Data.(*onceModel)
		if !om.done {
			om.done = true
			in.callValue(caller, args[1], nil, pos)
		}
		return nil
	})
}

type condModel struct {
	locker     Value
	broadcasts int
}

// EnvHooks lets a check install an environment (C08 schedules, C04 clocks).
type EnvHooks struct {
	Now         func(in *Interp) Value
	Sleep       func(in *Interp)
	BeforeLock  func(in *Interp, ls *lockState, write bool)
	AfterUnlock func(in *Interp, ls *lockState, write bool)
	CondWait    func(in *Interp, caller *frame, cm *condModel, pos tokenPos)
	LdbWriteFails func(in *Interp) bool
	ChanSend    func(in *Interp, c *ChanObj, v Value, pos tokenPos) bool
	Go          func(in *Interp, fr *frame, fn Value, args []Value, pos tokenPos) bool
}

// maybeYield runs the harness environment at a point where the executing
// operation holds no lock at all.
func (in *Interp) maybeYield(pos tokenPos) {
	if in.inYield {
		return
	}
	hook, ok := in.ghost["env:yield"]
	if !ok {
		return
	}
	for _, ls := range in.lockTab {
		if ls.writer || ls.readers > 0 {
			return
		}
	}
	in.inYield = true
	in.callValue(nil, hook, nil, pos)
	in.inYield = false
}
