package main

// Engine models of library objects with contracts the repository relies on:
//   - goleveldb (*leveldb.DB, leveldb.Batch, iterator.Iterator): an ordered
//     key/value store with atomic batches (DESIGN.md §5.1);
//   - an abstract codec for reflection-driven marshalling (protobuf, JSON):
//     Marshal returns an opaque blob bound to a deep copy of the message,
//     Unmarshal of that blob yields the copy (DESIGN.md §3.4).

import (
	"fmt"
	"go/types"

	"golang.org/x/tools/go/ssa"
)

type ldbSlot struct {
	key     *Str
	val     *Str
	present *Term
}

type ldbModel struct {
	slots  []*ldbSlot
	closed bool
	writes int // number of write operations applied (ghost)
}

type ldbIter struct {
	slots    []ldbSlot // snapshot at creation
	start    *Str      // nil = unbounded
	limit    *Str
	cur      int // -1 unpositioned / exhausted
	released bool
}

// keyU64 recognises an 8-byte key that is the big-endian rendering of one 64-bit term.
func (in *Interp) keyU64(s *Str) (*Term, bool) {
	b := in.b
	if c, ok := s.Concrete(); ok {
		if len(c) != 8 {
			return nil, false
		}
		var v uint64
		for i := 0; i < 8; i++ {
			v = v<<8 | uint64(c[i])
		}
		return b.BV(v, 64), true
	}
	f := in.str.Flat(s)
	if !f.Len.IsConst() || f.Len.val != 8 || len(f.B) < 8 {
		return nil, false
	}
	// all bytes extracts of the same term at the right positions?
	var base *Term
	for i := 0; i < 8; i++ {
		t := f.B[i]
		hi := uint8(63 - 8*i)
		if t.op == OpExtract && uint8(t.val>>8) == hi && uint8(t.val&0xff) == hi-7 {
			if base == nil {
				base = t.args[0]
			} else if base != t.args[0] {
				base = nil
				break
			}
			continue
		}
		base = nil
		break
	}
	if base != nil && base.w == 64 {
		return base, true
	}
	// general: concatenate
	v := f.B[0]
	for i := 1; i < 8; i++ {
		v = b.Concat(v, f.B[i])
	}
	return v, true
}

func (in *Interp) keyLt(a, c *Str) *Term {
	if x, ok := in.keyU64(a); ok {
		if y, ok2 := in.keyU64(c); ok2 {
			return in.b.ULt(x, y)
		}
	}
	return in.str.Lt(a, c)
}

func (in *Interp) keyEq(a, c *Str) *Term {
	if x, ok := in.keyU64(a); ok {
		if y, ok2 := in.keyU64(c); ok2 {
			return in.b.Eq(x, y)
		}
	}
	return in.str.Eq(a, c)
}

func (in *Interp) ldbOf(v Value, pos tokenPos) *ldbModel {
	p, ok := v.(PtrV)
	if !ok || p.IsNil() {
		in.goPanicf(pos, "nilderef", "nil *leveldb.DB")
	}
	o, ok := p.obj.val.(OpaqueV)
	if !ok || o.Tag != "ldb" {
		in.unsupported("leveldb call on %T", p.obj.val)
	}
	return o.Data.(*ldbModel)
}

func (in *Interp) ldbErr(name string) Value {
	if v, ok := in.ghost["err:"+name]; ok {
		return v
	}
	e := in.newError(in.str.Const(name))
	in.ghost["err:"+name] = e
	return e
}

func (in *Interp) ldbPut(m *ldbModel, key, val *Str) {
	b := in.b
	m.writes++
	var conds []*Term
	for _, s := range m.slots {
		if s.present.IsFalse() {
			conds = append(conds, b.False)
			continue
		}
		conds = append(conds, b.And(s.present, in.keyEq(s.key, key)))
	}
	none := b.Not(b.Or(conds...))
	k := in.choose(append(conds, none))
	if k == len(m.slots) {
		m.slots = append(m.slots, &ldbSlot{key: key, val: val, present: b.True})
		return
	}
	m.slots[k].val = val
}

func (in *Interp) ldbDelete(m *ldbModel, key *Str) {
	b := in.b
	m.writes++
	for _, s := range m.slots {
		if s.present.IsFalse() {
			continue
		}
		s.present = b.And(s.present, b.Not(in.keyEq(s.key, key)))
	}
}

func (in *Interp) ldbGet(m *ldbModel, key *Str) (*Str, bool) {
	b := in.b
	var conds []*Term
	for _, s := range m.slots {
		if s.present.IsFalse() {
			conds = append(conds, b.False)
			continue
		}
		conds = append(conds, b.And(s.present, in.keyEq(s.key, key)))
	}
	none := b.Not(b.Or(conds...))
	k := in.choose(append(conds, none))
	if k == len(m.slots) {
		return nil, false
	}
	return m.slots[k].val, true
}

func (it *ldbIter) inRange(in *Interp, s *ldbSlot) *Term {
	b := in.b
	c := s.present
	if it.start != nil {
		c = b.And(c, b.Not(in.keyLt(s.key, it.start)))
	}
	if it.limit != nil {
		c = b.And(c, in.keyLt(s.key, it.limit))
	}
	return c
}

// seekExtreme positions the iterator on the smallest (min=true) or largest
// in-range slot whose key is beyond `after` (exclusive; nil = no bound).
func (in *Interp) ldbSeek(it *ldbIter, min bool, after *Str, inclusive bool) bool {
	b := in.b
	n := len(it.slots)
	elig := make([]*Term, n)
	for j := range it.slots {
		s := &it.slots[j]
		c := it.inRange(in, s)
		if after != nil {
			if min {
				if inclusive {
					c = b.And(c, b.Not(in.keyLt(s.key, after)))
				} else {
					c = b.And(c, in.keyLt(after, s.key))
				}
			} else {
				if inclusive {
					c = b.And(c, b.Not(in.keyLt(after, s.key)))
				} else {
					c = b.And(c, in.keyLt(s.key, after))
				}
			}
		}
		elig[j] = c
	}
	conds := make([]*Term, n+1)
	for j := 0; j < n; j++ {
		c := elig[j]
		for k := 0; k < n && !c.IsFalse(); k++ {
			if k == j {
				continue
			}
			var better *Term
			if min {
				better = in.keyLt(it.slots[k].key, it.slots[j].key)
			} else {
				better = in.keyLt(it.slots[j].key, it.slots[k].key)
			}
			c = b.And(c, b.Not(b.And(elig[k], better)))
		}
		conds[j] = c
	}
	conds[n] = b.Not(b.Or(elig...))
	k := in.choose(conds)
	if k == n {
		it.cur = -1
		return false
	}
	it.cur = k
	return true
}

func bytesValue(in *Interp, s *Str) Value { return BytesV{S: s} }

func registerLevelDB(e *Engine) {
	reg := func(name string, f IntrinsicFn) { e.intr[name] = f }
	const ldb = "github.com/syndtr/goleveldb/leveldb"
	reg("(*"+ldb+".DB).Get", func(in *Interp, _ *frame, _ *ssa.Function, args []Value, pos tokenPos) Value {
		m := in.ldbOf(args[0], pos)
		v, ok := in.ldbGet(m, in.toStrArg(args[1], pos))
		if !ok {
			return TupleV{E: []Value{BytesV{Nil: true, S: &Str{}}, in.externalError(ldb + ".ErrNotFound")}}
		}
		return TupleV{E: []Value{BytesV{S: v}, IfaceV{}}}
	})
	reg("(*"+ldb+".DB).Put", func(in *Interp, _ *frame, _ *ssa.Function, args []Value, pos tokenPos) Value {
		m := in.ldbOf(args[0], pos)
		in.ldbPut(m, in.toStrArg(args[1], pos), in.toStrArg(args[2], pos))
		return IfaceV{}
	})
	reg("(*"+ldb+".DB).Delete", func(in *Interp, _ *frame, _ *ssa.Function, args []Value, pos tokenPos) Value {
		m := in.ldbOf(args[0], pos)
		in.ldbDelete(m, in.toStrArg(args[1], pos))
		return IfaceV{}
	})
	reg("(*"+ldb+".DB).Close", func(in *Interp, _ *frame, _ *ssa.Function, args []Value, pos tokenPos) Value {
		m := in.ldbOf(args[0], pos)
		m.closed = true
		return IfaceV{}
	})
	reg("(*"+ldb+".DB).Write", func(in *Interp, _ *frame, _ *ssa.Function, args []Value, pos tokenPos) Value {
		m := in.ldbOf(args[0], pos)
		bp := args[1].(PtrV)
		if bp.IsNil() {
			in.goPanicf(pos, "nilderef", "nil *leveldb.Batch")
		}
		bt := in.load(bp, pos).(OpaqueV).Data.(*ldbBatch)
		if in.env != nil && in.env.LdbWriteFails != nil && in.env.LdbWriteFails(in) {
			return in.ldbErr("leveldb: write failed (injected)")
		}
		for _, op := range bt.ops {
			if op.del {
				in.ldbDelete(m, op.key.(*Str))
			} else {
				in.ldbPut(m, op.key.(*Str), op.val.(*Str))
			}
		}
		return IfaceV{}
	})
	open := func(in *Interp, _ *frame, fn *ssa.Function, args []Value, pos tokenPos) Value {
		et := fn.Signature.Results().At(0).Type().(*types.Pointer).Elem()
		o := in.newObj(OpaqueV{Tag: "ldb", Data: &ldbModel{}}, et, "leveldb.DB")
		o.heap = true
		return TupleV{E: []Value{PtrV{obj: o}, IfaceV{}}}
	}
	reg(ldb+".OpenFile", open)
	reg(ldb+".RecoverFile", open)
	reg(ldb+".Open", open)
	batchOf := func(in *Interp, v Value, pos tokenPos) *ldbBatch {
		p := v.(PtrV)
		if p.IsNil() {
			in.goPanicf(pos, "nilderef", "nil *leveldb.Batch")
		}
		return in.load(p, pos).(OpaqueV).Data.(*ldbBatch)
	}
	reg("(*"+ldb+".Batch).Put", func(in *Interp, _ *frame, _ *ssa.Function, args []Value, pos tokenPos) Value {
		bt := batchOf(in, args[0], pos)
		bt.ops = append(bt.ops, ldbOp{key: in.toStrArg(args[1], pos), val: in.toStrArg(args[2], pos)})
		return nil
	})
	reg("(*"+ldb+".Batch).Delete", func(in *Interp, _ *frame, _ *ssa.Function, args []Value, pos tokenPos) Value {
		bt := batchOf(in, args[0], pos)
		bt.ops = append(bt.ops, ldbOp{del: true, key: in.toStrArg(args[1], pos)})
		return nil
	})
	reg("(*"+ldb+".Batch).Reset", func(in *Interp, _ *frame, _ *ssa.Function, args []Value, pos tokenPos) Value {
		batchOf(in, args[0], pos).ops = nil
		return nil
	})
	reg("(*"+ldb+".Batch).Len", func(in *Interp, _ *frame, _ *ssa.Function, args []Value, pos tokenPos) Value {
		return Sc{in.b.BV(uint64(len(batchOf(in, args[0], pos).ops)), 64)}
	})
	reg("(*"+ldb+".DB).NewIterator", func(in *Interp, _ *frame, fn *ssa.Function, args []Value, pos tokenPos) Value {
		m := in.ldbOf(args[0], pos)
		it := &ldbIter{cur: -1}
		for _, s := range m.slots {
			if !s.present.IsFalse() {
				it.slots = append(it.slots, *s)
			}
		}
		if rp, ok := args[1].(PtrV); ok && !rp.IsNil() {
			rv := in.load(rp, pos).(*StructV)
			// util.Range{Start, Limit []byte}
			get := func(v Value) *Str {
				switch x := v.(type) {
				case BytesV:
					if x.Nil {
						return nil
					}
					return x.S
				case SliceV:
					if x.arr == nil {
						return nil
					}
					return in.sliceToStr(x, pos)
				}
				return nil
			}
			it.start, it.limit = get(rv.F[0]), get(rv.F[1])
		}
		return IfaceV{T: types.Typ[types.UnsafePointer], V: OpaqueV{Tag: "ldbiter", Data: it}}
	})
	iterOf := func(args []Value) *ldbIter { return args[0].(OpaqueV).Data.(*ldbIter) }
	modelMethods["model:ldbiter.First"] = func(in *Interp, _ *frame, _ *ssa.Function, args []Value, pos tokenPos) Value {
		return Sc{in.b.Bool(in.ldbSeek(iterOf(args), true, nil, false))}
	}
	modelMethods["model:ldbiter.Last"] = func(in *Interp, _ *frame, _ *ssa.Function, args []Value, pos tokenPos) Value {
		return Sc{in.b.Bool(in.ldbSeek(iterOf(args), false, nil, false))}
	}
	modelMethods["model:ldbiter.Next"] = func(in *Interp, _ *frame, _ *ssa.Function, args []Value, pos tokenPos) Value {
		it := iterOf(args)
		if it.cur < 0 {
			return Sc{in.b.Bool(in.ldbSeek(it, true, nil, false))}
		}
		return Sc{in.b.Bool(in.ldbSeek(it, true, it.slots[it.cur].key, false))}
	}
	modelMethods["model:ldbiter.Prev"] = func(in *Interp, _ *frame, _ *ssa.Function, args []Value, pos tokenPos) Value {
		it := iterOf(args)
		if it.cur < 0 {
			return Sc{in.b.Bool(in.ldbSeek(it, false, nil, false))}
		}
		return Sc{in.b.Bool(in.ldbSeek(it, false, it.slots[it.cur].key, false))}
	}
	modelMethods["model:ldbiter.Seek"] = func(in *Interp, _ *frame, _ *ssa.Function, args []Value, pos tokenPos) Value {
		return Sc{in.b.Bool(in.ldbSeek(iterOf(args), true, in.toStrArg(args[1], pos), true))}
	}
	modelMethods["model:ldbiter.Valid"] = func(in *Interp, _ *frame, _ *ssa.Function, args []Value, pos tokenPos) Value {
		return Sc{in.b.Bool(iterOf(args).cur >= 0)}
	}
	modelMethods["model:ldbiter.Key"] = func(in *Interp, _ *frame, _ *ssa.Function, args []Value, pos tokenPos) Value {
		it := iterOf(args)
		if it.cur < 0 {
			return BytesV{Nil: true, S: &Str{}}
		}
		return BytesV{S: it.slots[it.cur].key}
	}
	modelMethods["model:ldbiter.Value"] = func(in *Interp, _ *frame, _ *ssa.Function, args []Value, pos tokenPos) Value {
		it := iterOf(args)
		if it.cur < 0 {
			return BytesV{Nil: true, S: &Str{}}
		}
		return BytesV{S: it.slots[it.cur].val}
	}
	modelMethods["model:ldbiter.Error"] = func(in *Interp, _ *frame, _ *ssa.Function, args []Value, pos tokenPos) Value {
		return IfaceV{}
	}
	modelMethods["model:ldbiter.Release"] = func(in *Interp, _ *frame, _ *ssa.Function, args []Value, pos tokenPos) Value {
		iterOf(args).released = true
		return nil
	}
}

// externalError returns the (per path unique) error object standing for an
// error variable of a library package (leveldb.ErrNotFound, raft.ErrLogNotFound ...).
func (in *Interp) externalError(name string) Value {
	return in.ldbErr(name)
}

// ---- abstract codec ----

type blobRec struct {
	msg Value // deep copy of the marshalled message (the pointee)
	typ types.Type
}

// deepCopy clones a value including everything reachable through pointers,
// slices and maps (library opaque objects are shared).
func (in *Interp) deepCopy(v Value, memo map[*Obj]*Obj) Value {
	switch x := v.(type) {
	case *StructV:
		f := make([]Value, len(x.F))
		for i, e := range x.F {
			f[i] = in.deepCopy(e, memo)
		}
		return &StructV{F: f}
	case *ArrayV:
		e := make([]Value, len(x.E))
		for i, y := range x.E {
			e[i] = in.deepCopy(y, memo)
		}
		return &ArrayV{E: e}
	case PtrV:
		if x.obj == nil {
			return x
		}
		if n, ok := memo[x.obj]; ok {
			return PtrV{obj: n, path: x.path}
		}
		if _, isOpaque := x.obj.val.(OpaqueV); isOpaque {
			return x
		}
		n := in.newObj(nil, x.obj.typ, x.obj.site)
		n.heap = true
		memo[x.obj] = n
		n.val = in.deepCopy(x.obj.val, memo)
		if ts, ok := in.tsGhost[x.obj]; ok {
			in.tsGhost[n] = ts
		}
		return PtrV{obj: n, path: x.path}
	case SliceV:
		if x.arr == nil {
			return x
		}
		n, ok := memo[x.arr]
		if !ok {
			n = in.newObj(nil, x.arr.typ, x.arr.site)
			n.heap = true
			memo[x.arr] = n
			n.val = in.deepCopy(x.arr.val, memo)
		}
		return SliceV{arr: n, off: x.off, len: x.len, cap: x.cap}
	case MapV:
		if x.m == nil {
			return x
		}
		nm := &MapObj{kt: x.m.kt, vt: x.m.vt, site: x.m.site}
		in.nobj++
		nm.id = in.nobj
		for _, e := range x.m.entries {
			nm.entries = append(nm.entries, &MapEntry{key: in.deepCopy(e.key, memo), val: in.deepCopy(e.val, memo), present: e.present})
		}
		return MapV{m: nm}
	case IfaceV:
		return IfaceV{T: x.T, V: in.deepCopy(x.V, memo)}
	}
	return v
}

// newBlob creates the opaque byte string standing for the encoding of msg.
func (in *Interp) newBlob(tag string, first string, msg Value, typ types.Type) *Str {
	b := in.b
	id := len(in.blobs)
	atom := &SymStr{Len: b.BV(1, 64), B: []*Term{b.Sym(fmt.Sprintf("blob%d_%s", id, sanitize(tag)), 8)}}
	if in.blobs == nil {
		in.blobs = map[*SymStr]*blobRec{}
	}
	rec := &blobRec{msg: in.deepCopy(msg, map[*Obj]*Obj{}), typ: typ}
	in.blobs[atom] = rec
	if in.blobByTerm == nil {
		in.blobByTerm = map[*Term]*blobRec{}
	}
	in.blobByTerm[atom.B[0]] = rec // the identity byte survives copies through byte arrays
	return in.str.Concat(in.str.Const(first), &Str{segs: []Seg{{sym: atom}}})
}

// blobOf finds the blob record carried by an encoded byte string.
func (in *Interp) blobOf(s *Str) (*blobRec, bool) {
	for _, g := range s.segs {
		if g.sym != nil {
			if r, ok := in.blobs[g.sym]; ok {
				return r, true
			}
		}
	}
	for _, g := range s.segs {
		if g.sym != nil {
			for _, t := range g.sym.B {
				if r, ok := in.blobByTerm[t]; ok {
					return r, true
				}
			}
		}
	}
	return nil, false
}

func registerCodec(e *Engine) {
	reg := func(name string, f IntrinsicFn) { e.intr[name] = f }
	marshal := func(first string) IntrinsicFn {
		return func(in *Interp, _ *frame, fn *ssa.Function, args []Value, pos tokenPos) Value {
			iv, ok := args[0].(IfaceV)
			var msg Value = args[0]
			var typ types.Type
			if ok {
				msg, typ = iv.V, iv.T
			}
			var content Value
			if p, isp := msg.(PtrV); isp {
				if p.IsNil() {
					in.goPanicf(pos, "nilderef", "Marshal of nil message")
				}
				content = in.load(p, pos)
			} else {
				content = msg
			}
			s := in.newBlob(fn.Name(), first, content, typ)
			return TupleV{E: []Value{BytesV{S: s}, IfaceV{}}}
		}
	}
	unmarshal := func(in *Interp, _ *frame, fn *ssa.Function, args []Value, pos tokenPos) Value {
		data := in.toStrArg(args[0], pos)
		iv, ok := args[1].(IfaceV)
		var dst Value = args[1]
		if ok {
			dst = iv.V
		}
		dp, isp := dst.(PtrV)
		if !isp || dp.IsNil() {
			in.unsupported("Unmarshal into %T", dst)
		}
		rec, found := in.blobOf(data)
		if !found {
			// bytes that no Marshal of this run produced: the decoder may fail or
			// yield arbitrary content; both are outside what the abstraction can say
			in.note("codec: unmarshal of foreign bytes")
			return in.newError(in.str.Const("unmarshal: invalid data"))
		}
		in.store(dp, in.deepCopy(rec.msg, map[*Obj]*Obj{}), pos)
		return IfaceV{}
	}
	reg("github.com/golang/protobuf/proto.Marshal", marshal(""))
	reg("google.golang.org/protobuf/proto.Marshal", marshal(""))
	reg("github.com/golang/protobuf/proto.Unmarshal", unmarshal)
	reg("google.golang.org/protobuf/proto.Unmarshal", unmarshal)
	reg("encoding/json.Marshal", marshal("{"))
	reg("encoding/json.Unmarshal", unmarshal)

	const tspb = "google.golang.org/protobuf/types/known/timestamppb"
	reg(tspb+".New", func(in *Interp, _ *frame, fn *ssa.Function, args []Value, pos tokenPos) Value {
		t := args[0].(TimeV)
		et := fn.Signature.Results().At(0).Type().(*types.Pointer).Elem()
		o := in.newObj(in.zero(et), et, "timestamppb")
		o.heap = true
		in.tsGhost[o] = t
		return PtrV{obj: o}
	})
	reg("(*"+tspb+".Timestamp).AsTime", func(in *Interp, _ *frame, fn *ssa.Function, args []Value, pos tokenPos) Value {
		p := args[0].(PtrV)
		if p.IsNil() {
			return TimeV{Kind: TimeNanos, V: in.b.BV(0, 64)}
		}
		if t, ok := in.tsGhost[p.obj]; ok {
			return t
		}
		in.unsupported("Timestamp.AsTime on a timestamp not created by timestamppb.New")
		return nil
	})
}
