package main

import (
	"go/token"
	"go/types"

	"golang.org/x/tools/go/ssa"
)

type MapEntry struct {
	key     Value
	val     Value
	present *Term
}

type MapObj struct {
	id      int
	entries []*MapEntry
	kt, vt  types.Type
	site    string
}

func (in *Interp) newMap(mt *types.Map, site string) *MapObj {
	in.nobj++
	return &MapObj{id: in.nobj, kt: mt.Key(), vt: mt.Elem(), site: site}
}

func (in *Interp) mapLen(m MapV) *Term {
	b := in.b
	in.recordMapAccess(m.m, false, 0)
	if m.m == nil {
		return b.BV(0, 64)
	}
	var c uint64
	var t *Term
	for _, e := range m.m.entries {
		if e.present.IsTrue() {
			c++
		} else if !e.present.IsFalse() {
			one := b.Ite(e.present, b.BV(1, 64), b.BV(0, 64))
			if t == nil {
				t = one
			} else {
				t = b.Add(t, one)
			}
		}
	}
	if t == nil {
		return b.BV(c, 64)
	}
	return b.Add(t, b.BV(c, 64))
}

func (in *Interp) matchTerms(m *MapObj, key Value) []*Term {
	b := in.b
	out := make([]*Term, len(m.entries))
	for j, e := range m.entries {
		if e.present.IsFalse() {
			out[j] = b.False
			continue
		}
		out[j] = b.And(e.present, in.equalValues(e.key, key, m.kt, token.NoPos))
	}
	return out
}

func isMergeable(v Value) bool {
	switch v.(type) {
	case Sc, *Str:
		return true
	}
	return false
}

func (in *Interp) iteValue(c *Term, x, y Value) Value {
	switch a := x.(type) {
	case Sc:
		return Sc{in.b.Ite(c, a.T, y.(Sc).T)}
	case *Str:
		return in.str.Ite(c, a, y.(*Str))
	}
	in.unsupported("ite on %T", x)
	return nil
}

func (in *Interp) mapLookup(mv MapV, key Value, vt types.Type) (Value, *Term) {
	b := in.b
	in.recordMapAccess(mv.m, false, 0)
	zero := in.zero(vt)
	if mv.m == nil {
		return zero, b.False
	}
	m := mv.m
	match := in.matchTerms(m, key)
	for j, t := range match {
		if t.IsTrue() {
			return copyVal(m.entries[j].val), b.True
		}
	}
	if isMergeable(zero) {
		res := zero
		ok := b.False
		for j := len(match) - 1; j >= 0; j-- {
			if match[j].IsFalse() {
				continue
			}
			res = in.iteValue(match[j], m.entries[j].val, res)
			ok = b.Or(match[j], ok)
		}
		return res, ok
	}
	none := b.Not(b.Or(match...))
	conds := append(append([]*Term{}, match...), none)
	k := in.choose(conds)
	if k == len(match) {
		return zero, b.False
	}
	return copyVal(m.entries[k].val), b.True
}

func (in *Interp) lookupOp(fr *frame, x *ssa.Lookup) Value {
	base := fr.get(x.X)
	switch c := base.(type) {
	case MapV:
		vt := x.X.Type().Underlying().(*types.Map).Elem()
		v, ok := in.mapLookup(c, fr.get(x.Index), vt)
		if x.CommaOk {
			return TupleV{E: []Value{v, Sc{ok}}}
		}
		return v
	case *Str:
		// string index (s[i] appears as Lookup in SSA)
		b := in.b
		idx := in.toInt64(fr.get(x.Index).(Sc).T, x.Index.Type())
		ln := in.str.Len(c)
		in.boundsPanic(b.Not(b.And(b.SLe(b.BV(0, 64), idx), b.SLt(idx, ln))), x.Pos(), "index out of range")
		return Sc{in.str.ByteAt(c, idx)}
	}
	in.unsupported("Lookup on %T", base)
	return nil
}

func (in *Interp) mapUpdate(mvv Value, key, val Value, pos token.Pos) {
	b := in.b
	mv, ok := mvv.(MapV)
	if !ok {
		in.unsupported("MapUpdate on %T", mvv)
	}
	if mv.m == nil {
		in.goPanicf(pos, "nilmap", "assignment to entry in nil map")
	}
	m := mv.m
	in.recordMapAccess(m, true, pos)
	if in.trackAcc {
		in.publish(val, 0)
		in.publish(key, 0)
	}
	val = copyVal(val)
	match := in.matchTerms(m, key)
	anyPossible := false
	for j, t := range match {
		if t.IsTrue() {
			m.entries[j].val = val
			return
		}
		if !t.IsFalse() {
			anyPossible = true
		}
	}
	if !anyPossible {
		m.entries = append(m.entries, &MapEntry{key: copyVal(key), val: val, present: b.True})
		return
	}
	if isMergeable(val) {
		for j, t := range match {
			if t.IsFalse() {
				continue
			}
			m.entries[j].val = in.iteValue(t, val, m.entries[j].val)
		}
		m.entries = append(m.entries, &MapEntry{key: copyVal(key), val: val, present: b.Not(b.Or(match...))})
		return
	}
	none := b.Not(b.Or(match...))
	k := in.choose(append(append([]*Term{}, match...), none))
	if k == len(match) {
		m.entries = append(m.entries, &MapEntry{key: copyVal(key), val: val, present: b.True})
		return
	}
	m.entries[k].val = val
}

func (in *Interp) mapDelete(mvv Value, key Value) {
	b := in.b
	mv := mvv.(MapV)
	if mv.m == nil {
		return
	}
	in.recordMapAccess(mv.m, true, 0)
	match := in.matchTerms(mv.m, key)
	for j, t := range match {
		if t.IsFalse() {
			continue
		}
		e := mv.m.entries[j]
		e.present = b.And(e.present, b.Not(t))
	}
	// drop entries that are certainly gone (keeps later lookups small)
	out := mv.m.entries[:0]
	for _, e := range mv.m.entries {
		if !e.present.IsFalse() {
			out = append(out, e)
		}
	}
	for i := len(out); i < len(mv.m.entries); i++ {
		mv.m.entries[i] = nil
	}
	mv.m.entries = out
}

// mapPutIf inserts an entry whose presence is symbolic (harness API).
func (in *Interp) mapPutIf(mv MapV, key, val Value, present *Term) {
	mv.m.entries = append(mv.m.entries, &MapEntry{key: copyVal(key), val: copyVal(val), present: present})
}

// ---- range ----

type mapIter struct {
	m       *MapObj
	rest    []*MapEntry
	permute bool
	rotated bool // single-range mode: one entry has been moved to the front, the rest stays canonical
}

type strIter struct {
	f *SymStr
	i int
}

func (in *Interp) rangeIter(v Value, t types.Type) Value {
	switch x := v.(type) {
	case MapV:
		it := &mapIter{}
		in.recordMapAccess(x.m, false, 0)
		if x.m != nil {
			it.m = x.m
			it.rest = append([]*MapEntry{}, x.m.entries...)
			live := 0
			for _, e := range it.rest {
				if !e.present.IsFalse() {
					live++
				}
			}
			if in.permuteMode == 1 && !in.permuteUsed && live >= 2 && live <= in.opts.PermuteMax {
				// single-range mode: at most one range of this execution is iterated in an arbitrary order
				if in.choose([]*Term{in.b.True, in.b.True}) == 1 {
					it.permute = true
					in.permuteUsed = true
				}
			} else if in.permuteMode == 2 {
				it.permute = in.opts.PermuteMaps && live >= 2 && live <= in.opts.PermuteMax
			}
		}
		return OpaqueV{Tag: "mapiter", Data: it}
	case *Str:
		return OpaqueV{Tag: "striter", Data: &strIter{f: in.str.Flat(x)}}
	}
	in.unsupported("range over %T", v)
	return nil
}

func (in *Interp) rangeNext(fr *frame, itv Value, x *ssa.Next) Value {
	b := in.b
	o := itv.(OpaqueV)
	switch it := o.Data.(type) {
	case *mapIter:
		for len(it.rest) > 0 {
			k := 0
			if it.permute && len(it.rest) > 1 && (in.permuteMode != 1 || !it.rotated) {
				it.rotated = true
				conds := make([]*Term, len(it.rest))
				for i, e := range it.rest {
					if e.present.IsFalse() {
						conds[i] = b.False
					} else {
						conds[i] = b.True
					}
				}
				anyLive := false
				for _, c := range conds {
					if c.IsTrue() {
						anyLive = true
					}
				}
				if anyLive {
					k = in.chooseOrder(conds)
				}
			}
			e := it.rest[k]
			it.rest = append(it.rest[:k:k], it.rest[k+1:]...)
			if e.present.IsFalse() {
				continue
			}
			if in.branch(e.present) {
				return TupleV{E: []Value{Sc{b.True}, copyVal(e.key), copyVal(e.val)}}
			}
		}
		var kz, vz Value
		if it.m != nil {
			kz, vz = in.zero(it.m.kt), in.zero(it.m.vt)
		}
		return TupleV{E: []Value{Sc{b.False}, kz, vz}}
	case *strIter:
		f := it.f
		if it.i >= len(f.B) {
			return TupleV{E: []Value{Sc{b.False}, Sc{b.BV(0, 64)}, Sc{b.BV(0, 32)}}}
		}
		ok := b.ULt(b.BV(uint64(it.i), 64), f.Len)
		if !in.branch(ok) {
			return TupleV{E: []Value{Sc{b.False}, Sc{b.BV(0, 64)}, Sc{b.BV(0, 32)}}}
		}
		c := f.B[it.i]
		if !c.IsConst() {
			in.note("ascii-runes")
			in.assume(b.ULt(c, b.BV(0x80, 8)))
		} else if c.val >= 0x80 {
			in.unsupported("range over non-ASCII constant string")
		}
		idx := it.i
		it.i++
		return TupleV{E: []Value{Sc{b.True}, Sc{b.BV(uint64(idx), 64)}, Sc{b.ZExt(c, 32)}}}
	}
	in.unsupported("next on %s", o.Tag)
	return nil
}

// chooseOrder forks over which live entry is visited next.  All alternatives
// are feasible by construction, so no solver call is made; the choice is
// recorded in the order log for the replay file.
func (in *Interp) chooseOrder(conds []*Term) int {
	k := in.choose(conds)
	return k
}
