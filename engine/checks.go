package main

// The check driver: `gosym check <Cxx> quick|thorough`.
// For every harness run of the property it explores all paths, turns each
// failing obligation into a replay tape, replays it natively against the real
// code (go test -overlay), matches reproduced violations against
// known_findings.txt, and writes the evidence file.

import (
	"encoding/json"
	"fmt"
	"os"
	"os/exec"
	"path/filepath"
	"regexp"
	"sort"
	"strconv"
	"strings"
	"time"
)

type HarnessRun struct {
	Name     string
	Pkg      string // directory relative to the repo root ("" = root package)
	PkgName  string
	Files    []string // relative to /verif/harness
	SymFiles []string // additional files for the symbolic side only (bodyless package-specific API)
	NatFiles []string // additional files for the native replay only (the same API with bodies)
	APIs     []string // extra API templates (harness/api/api_<name>_{sym,native}.go.tmpl)
	Solver   string
	Stubs    map[string]string
	Redirect map[string]string // callee -> harness function executed instead
	Race          bool          // replay under the race detector; a reported data race confirms the violation
	NativeClock   bool          // native replay: the package's time.Now()/time.Since( are routed through verifSetNow
	NativePatches []NativePatch // source patches applied by overlay for the native replay only
	Entry    string
	Params   map[string]int
	Unwind   int
	Permute  int
	Panics   bool // panics are violations of this property
	Workers  int
	Timeout  int // per query, ms
	Deadline time.Duration
	NoReplay bool // violations of this run cannot be replayed natively (explained in Notes)
	ReplayRuns int // native runs per replay (map-order dependent violations)
}

// NativePatch rewrites one line of a dependency's source for the native
// replay (through go test -overlay; nothing on disk is modified).
type NativePatch struct {
	Module string `json:"module"`
	File   string `json:"file"`
	Old    string `json:"old"`
	New    string `json:"new"`
}

type CheckDef struct {
	ID          string
	Runs        func(tier string) []HarnessRun
	Assumptions []string
	Bounds      func(tier string) map[string]interface{}
	Outside     []string
	Functions   []string
	Rule        string
}

var checkDefs = map[string]*CheckDef{}

func registerCheck(c *CheckDef) { checkDefs[c.ID] = c }

type knownFinding struct {
	Kind     string // finding | fixed
	Property string
	Key      string
	Text     string
}

func loadKnownFindings() []knownFinding {
	data, err := os.ReadFile(filepath.Join(verifRoot(), "known_findings.txt"))
	if err != nil {
		return nil
	}
	var out []knownFinding
	for _, line := range strings.Split(string(data), "\n") {
		line = strings.TrimSpace(line)
		if line == "" || strings.HasPrefix(line, "#") {
			continue
		}
		var kf knownFinding
		switch {
		case strings.HasPrefix(line, "finding:"):
			kf.Kind = "finding"
			line = strings.TrimSpace(line[len("finding:"):])
		case strings.HasPrefix(line, "fixed:"):
			kf.Kind = "fixed"
			line = strings.TrimSpace(line[len("fixed:"):])
		default:
			continue
		}
		fields := strings.Fields(line)
		rest := []string{}
		for _, f := range fields {
			switch {
			case strings.HasPrefix(f, "property="):
				kf.Property = f[len("property="):]
			case strings.HasPrefix(f, "key="):
				kf.Key = f[len("key="):]
			default:
				rest = append(rest, f)
			}
		}
		kf.Text = strings.Join(rest, " ")
		out = append(out, kf)
	}
	return out
}

type replayTape struct {
	Property string         `json:"property"`
	Harness  string         `json:"harness"`
	Pkg      string         `json:"pkg"`
	PkgName  string         `json:"pkgname"`
	Files    []string       `json:"files"`
	Params   map[string]int `json:"params"`
	Draws    []DrawValue    `json:"draws"`
	Expect   string         `json:"expect"`
	Kind     string         `json:"kind"`
	Msg      string         `json:"msg"`
	Runs     int            `json:"runs,omitempty"`
	APIs     []string       `json:"apis,omitempty"`
	Patches  []NativePatch  `json:"patches,omitempty"`
	Race     bool           `json:"race,omitempty"`
	Clock    bool           `json:"clock,omitempty"` // native replay routes the package's time.Now/time.Since through verifSetNow
	Decision []int          `json:"decision,omitempty"` // path of the symbolic execution (gosym run -path), for diagnosis
	Site     string         `json:"site,omitempty"`
}

type replayOutcome struct {
	Outcome string // assert, panic, done, assume, exhausted, mismatch, builderror
	Detail  string
	Raw     string
}

var harnessFnRe = regexp.MustCompile(`(?m)^func (verifHarness_\w+)\(\)`)

// nativeReplay compiles the harness into the real package with the
// tape-reading API and runs it.
func nativeReplay(repo string, tape *replayTape, tapePath string) replayOutcome {
	tmp, err := os.MkdirTemp("", "gosym-replay-")
	if err != nil {
		return replayOutcome{Outcome: "builderror", Detail: err.Error()}
	}
	defer os.RemoveAll(tmp)
	ov := map[string]string{}
	var entries []string
	pkgDir := filepath.Join(repo, tape.Pkg)
	for _, f := range tape.Files {
		src := filepath.Join(verifRoot(), "harness", f)
		data, err := os.ReadFile(src)
		if err != nil {
			return replayOutcome{Outcome: "builderror", Detail: err.Error()}
		}
		for _, m := range harnessFnRe.FindAllStringSubmatch(string(data), -1) {
			entries = append(entries, m[1])
		}
		ov[filepath.Join(pkgDir, "zz_verif_"+filepath.Base(f))] = src
	}
	gen := func(tmpl, name string) error {
		data, err := os.ReadFile(filepath.Join(verifRoot(), "harness/api", tmpl))
		if err != nil {
			return err
		}
		out := filepath.Join(tmp, name)
		if err := os.WriteFile(out, []byte(strings.Replace(string(data), "package PKG", "package "+tape.PkgName, 1)), 0o644); err != nil {
			return err
		}
		ov[filepath.Join(pkgDir, name)] = out
		return nil
	}
	if err := gen("api_native.go.tmpl", "zz_verif_api.go"); err != nil {
		return replayOutcome{Outcome: "builderror", Detail: err.Error()}
	}
	if err := gen("api_native_rt.go.tmpl", "zz_verif_api_rt.go"); err != nil {
		return replayOutcome{Outcome: "builderror", Detail: err.Error()}
	}
	for _, a := range tape.APIs {
		if err := gen("api_"+a+"_native.go.tmpl", "zz_verif_api_"+a+".go"); err != nil {
			return replayOutcome{Outcome: "builderror", Detail: err.Error()}
		}
	}
	for k, np := range tape.Patches {
		var src string
		if np.Module == "" {
			// a file of the repository itself (the native stand-in for a redirect of the symbolic run)
			src = filepath.Join(repo, np.File)
		} else {
			c := exec.Command("go", "list", "-m", "-f", "{{.Dir}}", np.Module)
			c.Dir = repo
			c.Env = append(os.Environ(), "GOFLAGS=-mod=mod", "GOPROXY=off", "GOSUMDB=off", "GOTOOLCHAIN=local")
			outb, err := c.Output()
			if err != nil {
				return replayOutcome{Outcome: "builderror", Detail: "go list " + np.Module + ": " + err.Error()}
			}
			src = filepath.Join(strings.TrimSpace(string(outb)), np.File)
		}
		data, err := os.ReadFile(src)
		if err != nil || !strings.Contains(string(data), np.Old) {
			return replayOutcome{Outcome: "builderror", Detail: "patch target not found in " + src}
		}
		dst := filepath.Join(tmp, fmt.Sprintf("patched%d_%s", k, filepath.Base(np.File)))
		os.WriteFile(dst, []byte(strings.Replace(string(data), np.Old, np.New, 1)), 0o644)
		ov[src] = dst
	}
	if tape.Clock {
		// the harness fixes the wall clock (verifSetNow): route the package's own clock reads through it
		matches, _ := filepath.Glob(filepath.Join(pkgDir, "*.go"))
		for k, src := range matches {
			if strings.HasSuffix(src, "_test.go") {
				continue
			}
			data, err := os.ReadFile(src)
			if err != nil {
				continue
			}
			txt := string(data)
			if !strings.Contains(txt, "time.Now()") && !strings.Contains(txt, "time.Since(") {
				continue
			}
			txt = strings.ReplaceAll(strings.ReplaceAll(txt, "time.Now()", "verifNow()"), "time.Since(", "verifSince(")
			txt += "\nvar _ = time.Unix\n"
			dst := filepath.Join(tmp, fmt.Sprintf("clock%d_%s", k, filepath.Base(src)))
			os.WriteFile(dst, []byte(txt), 0o644)
			ov[src] = dst
		}
	}
	var tb strings.Builder
	fmt.Fprintf(&tb, "package %s\n\nimport (\n\t\"os\"\n\t\"testing\"\n)\n\nvar verifEntries = map[string]func(){\n", tape.PkgName)
	for _, e := range entries {
		fmt.Fprintf(&tb, "\t%q: %s,\n", e, e)
	}
	tb.WriteString("}\n\nfunc TestVerifReplay(t *testing.T) {\n\tverifReplayRun(verifEntries[os.Getenv(\"VERIF_ENTRY\")])\n}\n")
	testFile := filepath.Join(tmp, "zz_verif_replay_test.go")
	os.WriteFile(testFile, []byte(tb.String()), 0o644)
	ov[filepath.Join(pkgDir, "zz_verif_replay_test.go")] = testFile
	ovJSON, _ := json.Marshal(map[string]interface{}{"Replace": ov})
	ovPath := filepath.Join(tmp, "overlay.json")
	os.WriteFile(ovPath, ovJSON, 0o644)

	runs := tape.Runs
	if runs <= 0 {
		runs = 1
	}
	args := []string{"test", "-vet=off", "-count=" + strconv.Itoa(runs), "-run", "^TestVerifReplay$", "-v", "-overlay", ovPath}
	if tape.Race {
		args = append(args, "-race")
	}
	args = append(args, "./"+tape.Pkg)
	cmd := exec.Command("timeout", append([]string{"600", "go"}, args...)...)
	cmd.Dir = repo
	cmd.Env = append(os.Environ(), "GOFLAGS=-mod=mod", "GOPROXY=off", "GOSUMDB=off", "GOTOOLCHAIN=local",
		"VERIF_TAPE="+tapePath, "VERIF_ENTRY="+tape.Harness)
	out, _ := cmd.CombinedOutput()
	raw := string(out)
	var outcomes []replayOutcome
	for _, line := range strings.Split(raw, "\n") {
		if i := strings.Index(line, "VERIF-REPLAY "); i >= 0 {
			f := strings.SplitN(strings.TrimSpace(line[i+len("VERIF-REPLAY "):]), " ", 2)
			o := replayOutcome{Outcome: f[0]}
			if len(f) > 1 {
				o.Detail = f[1]
			}
			outcomes = append(outcomes, o)
		}
	}
	if tape.Race && strings.Contains(raw, "WARNING: DATA RACE") {
		detail := ""
		if i := strings.Index(raw, "WARNING: DATA RACE"); i >= 0 {
			detail = raw[i:]
			if len(detail) > 600 {
				detail = detail[:600]
			}
		}
		return replayOutcome{Outcome: "race", Detail: strings.ReplaceAll(detail, "\n", " | "), Raw: raw}
	}
	if len(outcomes) == 0 {
		if len(raw) > 2000 {
			raw = raw[len(raw)-2000:]
		}
		return replayOutcome{Outcome: "builderror", Detail: "no VERIF-REPLAY line", Raw: raw}
	}
	// with several runs: report the expected outcome if any run shows it
	for _, o := range outcomes {
		if (o.Outcome == "assert" && tape.Kind == "assert" && o.Detail == tape.Expect) || (o.Outcome == "panic" && tape.Kind == "panic") {
			o.Raw = raw
			return o
		}
	}
	outcomes[0].Raw = raw
	return outcomes[0]
}

type evidence struct {
	PropertyID  string                 `json:"property_id"`
	Tier        string                 `json:"tier"`
	Seed        int                    `json:"seed"`
	Level       string                 `json:"level"`
	Coverage    map[string]interface{} `json:"coverage"`
	Assumptions []string               `json:"assumptions"`
	WallS       float64                `json:"wall_s"`
	Violations  int                    `json:"violations"`
}

func cmdCheck(args []string) int {
	if len(args) < 2 {
		fmt.Fprintln(os.Stderr, "usage: gosym check <Cxx> quick|thorough [--repo dir]")
		return 2
	}
	id, tier := args[0], args[1]
	repo := "/repo"
	for i := 2; i+1 < len(args); i++ {
		if args[i] == "--repo" {
			repo = args[i+1]
		}
	}
	if t := os.Getenv("VERIF_TIER"); t == "quick" || t == "thorough" {
		tier = t
	}
	def, ok := checkDefs[id]
	if !ok {
		fmt.Fprintln(os.Stderr, "unknown check", id)
		return 2
	}
	seed, _ := strconv.Atoi(os.Getenv("VERIF_SEED"))
	start := time.Now()
	known := loadKnownFindings()

	type runResult struct {
		run HarnessRun
		st  *Stats
	}
	var results []runResult
	inconclusive := []string{}
	crossChecks := []string{}
	loadFailed := 0
	_ = loadFailed
	engines := map[string]*Engine{}
	only := os.Getenv("VERIF_ONLY") // development aid: restrict to runs whose name contains this; no evidence is written
	for _, run := range def.Runs(tier) {
		if only != "" && !(strings.HasPrefix(only, "=") && run.Name == only[1:]) && !(!strings.HasPrefix(only, "=") && strings.Contains(run.Name, only)) {
			continue
		}
		if only != "" && os.Getenv("VERIF_PARAMS") != "" {
			np := map[string]int{}
			for k, v := range run.Params {
				np[k] = v
			}
			for _, kv := range strings.Split(os.Getenv("VERIF_PARAMS"), ",") {
				if i := strings.Index(kv, "="); i > 0 {
					n, _ := strconv.Atoi(kv[i+1:])
					np[kv[:i]] = n
				}
			}
			run.Params = np
		}
		key := run.Pkg + "|" + strings.Join(run.Files, ",") + "|" + strings.Join(run.SymFiles, ",") + "|" + strings.Join(run.APIs, ",") + fmt.Sprint(run.Redirect)
		eng := engines[key]
		if eng == nil {
			var files []string
			for _, f := range append(append([]string{}, run.Files...), run.SymFiles...) {
				files = append(files, filepath.Join(verifRoot(), "harness", f))
			}
			ov, err := harnessOverlay(repo, run.Pkg, run.PkgName, files)
			if err != nil {
				fmt.Fprintln(os.Stderr, "overlay:", err)
				return 2
			}
			for _, a := range run.APIs {
				if err := addAPITemplate(ov, repo, run.Pkg, run.PkgName, a, true); err != nil {
					fmt.Fprintln(os.Stderr, "overlay:", err)
					return 2
				}
			}
			pat := "./" + run.Pkg
			if run.Pkg == "" {
				pat = "."
			}
			eng, err = LoadEngine(repo, pat, ov)
			if err != nil {
				// this run's harness does not build against the tree: no verdict from it; other runs still count
				msg := strings.ReplaceAll(err.Error(), "\n", " ")
				if len(msg) > 300 {
					msg = msg[:300]
				}
				fmt.Fprintln(os.Stderr, "load failed (the tree does not type-check with the harness of run "+run.Name+"):", msg)
				inconclusive = append(inconclusive, fmt.Sprintf("%s: the tree does not type-check with this run's harness (%s)", run.Name, msg))
				loadFailed++
				continue
			}
			for k, v := range run.Redirect {
				eng.redirect[k] = v
			}
			engines[key] = eng
		}
		opts := RunOpts{Unwind: run.Unwind, Params: run.Params, PanicViolation: run.Panics, Stubs: run.Stubs}
		if run.Permute > 0 {
			opts.PermuteMaps, opts.PermuteMax = true, run.Permute
		}
		ex, err := NewExplorer(eng, run.Entry, opts)
		if err != nil {
			fmt.Fprintln(os.Stderr, err)
			return 2
		}
		ex.workers = 16
		if run.Workers > 0 {
			ex.workers = run.Workers
		}
		if run.Timeout > 0 {
			ex.timeout = run.Timeout
		}
		if run.Solver != "" {
			ex.solver = run.Solver
		}
		if run.Deadline > 0 {
			ex.deadline = time.Now().Add(run.Deadline)
		}
		st := ex.Run()
		results = append(results, runResult{run, st})
		if tier == "thorough" && run.Pkg != "internal/ircserver" && os.Getenv("VERIF_NO_CROSS") == "" {
			// solver diff: the same exploration decided by a second solver must take the same decisions
			other := "z3-new"
			if ex.solver == "z3-new" {
				other = "z3"
			}
			ex2, err := NewExplorer(eng, run.Entry, opts)
			if err == nil {
				ex2.workers, ex2.timeout, ex2.solver = ex.workers, ex.timeout, other
				st2 := ex2.Run()
				same := st2.Paths == st.Paths && fmt.Sprint(st2.PathKinds) == fmt.Sprint(st.PathKinds)
				if st2.Queries.Unknown > 0 {
					// the second solver gave up on some queries: that is no disagreement, the comparison is only partial
					crossChecks = append(crossChecks, fmt.Sprintf("%s: %s left %d queries undecided; comparison with %s partial (paths %d/%d)", run.Name, other, st2.Queries.Unknown, ex.solver, st.Paths, st2.Paths))
					same = true
				}
				fmt.Printf("[%s/%s] %s: cross-solver %s vs %s: paths %d/%d kinds %v/%v agree=%v\n", id, tier, run.Name, ex.solver, other, st.Paths, st2.Paths, st.PathKinds, st2.PathKinds, same)
				crossChecks = append(crossChecks, fmt.Sprintf("%s: %s and %s agree on %d paths %v: %v", run.Name, ex.solver, other, st.Paths, st.PathKinds, same))
				if !same {
					inconclusive = append(inconclusive, fmt.Sprintf("%s: solvers %s and %s disagree (paths %d vs %d, %v vs %v, unknown %d)", run.Name, ex.solver, other, st.Paths, st2.Paths, st.PathKinds, st2.PathKinds, st2.Queries.Unknown))
				}
			}
		}
		fmt.Printf("[%s/%s] %s: paths=%d %v queries=%d (sat %d unsat %d unknown %d) solver=%.1fs wall=%.1fs\n",
			id, tier, run.Name, st.Paths, st.PathKinds, st.Queries.Queries, st.Queries.Sat, st.Queries.Unsat, st.Queries.Unknown, st.Queries.Time.Seconds(), st.Wall.Seconds())
		for k, n := range st.Unsupported {
			inconclusive = append(inconclusive, fmt.Sprintf("%s: unsupported x%d: %s", run.Name, n, k))
		}
		for k, n := range st.Unwind {
			inconclusive = append(inconclusive, fmt.Sprintf("%s: unwinding/step bound hit x%d: %s", run.Name, n, k))
		}
		if st.Queries.Unknown > 0 || st.Queries.Errors > 0 {
			inconclusive = append(inconclusive, fmt.Sprintf("%s: solver unknown=%d errors=%d", run.Name, st.Queries.Unknown, st.Queries.Errors))
		}
		if st.Notes["deadline-reached"] {
			inconclusive = append(inconclusive, run.Name+": deadline reached before the exploration finished")
		}
		for lbl, n := range st.CaseAsserting {
			if n == 0 {
				inconclusive = append(inconclusive, fmt.Sprintf("%s: vacuous case %q (no feasible path reaches an assertion)", run.Name, lbl))
			}
		}
		if st.Asserts == 0 && st.PathKinds["assertfail"] == 0 && !run.Panics {
			inconclusive = append(inconclusive, run.Name+": vacuous run (no assertion reached)")
		}
	}

	// violations: dedupe by (run, label), replay each
	os.MkdirAll(filepath.Join(verifRoot(), "replays"), 0o755)
	type confirmed struct {
		label, replay, msg string
		known              bool
		text               string
	}
	var reported []confirmed
	nViol := 0
	replayed := 0
	seen := map[string]bool{}
	for _, rr := range results {
		for _, v := range rr.st.Violations {
			if seen[v.Label] {
				continue
			}
			seen[v.Label] = true
			if v.Draws == nil {
				inconclusive = append(inconclusive, fmt.Sprintf("%s: no model for violation %s", rr.run.Name, v.Label))
				continue
			}
			tape := &replayTape{Property: id, Harness: rr.run.Entry, Pkg: rr.run.Pkg, PkgName: rr.run.PkgName, Files: append(append([]string{}, rr.run.Files...), rr.run.NatFiles...),
				Params: rr.run.Params, Draws: v.Draws, Expect: v.Label, Kind: v.Kind, Msg: v.Msg, Runs: rr.run.ReplayRuns, APIs: rr.run.APIs, Patches: rr.run.NativePatches, Race: rr.run.Race, Decision: v.Decision, Site: v.Site, Clock: rr.run.NativeClock}
			name := fmt.Sprintf("%s-%s-%s.json", id, rr.run.Name, sanitize(v.Label))
			tapePath := filepath.Join(verifRoot(), "replays", name)
			data, _ := json.MarshalIndent(tape, "", " ")
			os.WriteFile(tapePath, data, 0o644)
			if rr.run.NoReplay {
				// harness depends on fakes that cannot be injected into a native build
				// (methods of library types): the solver's counterexample is reported
				// as it stands, the tape documents the input
				c := confirmed{label: v.Label, replay: tapePath, msg: v.Msg + " [solver model; not replayed natively]"}
				for _, kf := range known {
					if kf.Kind == "finding" && kf.Property == id && kf.Key == v.Label {
						c.known, c.text = true, kf.Text
					}
				}
				reported = append(reported, c)
				continue
			}
			o := nativeReplay(repo, tape, tapePath)
			replayed++
			reproduced := (v.Kind == "assert" && o.Outcome == "assert" && o.Detail == v.Label) || (v.Kind == "panic" && o.Outcome == "panic") || (rr.run.Race && o.Outcome == "race")
			if !reproduced {
				inconclusive = append(inconclusive, fmt.Sprintf("%s: model for %s did not reproduce natively (native outcome: %s %s) — encoding or stub imprecision, not reported as a violation; tape %s", rr.run.Name, v.Label, o.Outcome, o.Detail, tapePath))
				if os.Getenv("GOSYM_DEBUG") != "" {
					fmt.Fprintln(os.Stderr, o.Raw)
				}
				continue
			}
			c := confirmed{label: v.Label, replay: tapePath, msg: v.Msg}
			for _, kf := range known {
				if kf.Kind == "finding" && kf.Property == id && kf.Key == v.Label {
					c.known, c.text = true, kf.Text
				}
			}
			reported = append(reported, c)
		}
	}
	// differential validation of the encoding: witness inputs of passing paths are
	// replayed natively and must pass there too
	validated := 0
	nval := 1
	if tier == "thorough" {
		nval = 3
	}
	for _, rr := range results {
		if rr.run.NoReplay || rr.run.Race || len(reported) > 0 {
			continue
		}
		for k, d := range rr.st.SampleDraws {
			if k >= nval {
				break
			}
			tape := &replayTape{Property: id, Harness: rr.run.Entry, Pkg: rr.run.Pkg, PkgName: rr.run.PkgName, Files: append(append([]string{}, rr.run.Files...), rr.run.NatFiles...),
				Params: rr.run.Params, Draws: d, Expect: "done", Kind: "done", APIs: rr.run.APIs, Patches: rr.run.NativePatches, Clock: rr.run.NativeClock}
			tapePath := filepath.Join(verifRoot(), "replays", fmt.Sprintf("%s-%s-witness%d.json", id, rr.run.Name, k))
			data, _ := json.MarshalIndent(tape, "", " ")
			os.WriteFile(tapePath, data, 0o644)
			o := nativeReplay(repo, tape, tapePath)
			if o.Outcome == "done" {
				validated++
			} else {
				inconclusive = append(inconclusive, fmt.Sprintf("%s: witness input of a passing path does not pass natively (native outcome: %s %s) — encoding mismatch; tape %s", rr.run.Name, o.Outcome, o.Detail, tapePath))
			}
		}
	}
	exit := 0
	for _, c := range reported {
		if c.known {
			fmt.Printf("KNOWN-FINDING: property=%s key=%s %s\n", id, c.label, c.text)
		} else {
			fmt.Printf("VIOLATION property=%s replay=%s\n", id, c.replay)
			fmt.Printf("  what: %s (%s)\n", c.label, c.msg)
			nViol++
			exit = 1
		}
	}
	if exit == 0 && len(inconclusive) > 0 {
		sort.Strings(inconclusive)
		for _, s := range inconclusive {
			fmt.Println("INCONCLUSIVE:", s)
		}
		exit = 2
	}

	// evidence
	cov := map[string]interface{}{}
	var paths, steps, queries, sat, unsat, unknown, asserts int64
	var solverS float64
	distinct := 0
	var samples []interface{}
	fnSet := map[string]bool{}
	notes := map[string]bool{}
	for _, rr := range results {
		st := rr.st
		paths += int64(st.Paths)
		steps += st.Steps
		queries += int64(st.Queries.Queries)
		sat += int64(st.Queries.Sat)
		unsat += int64(st.Queries.Unsat)
		unknown += int64(st.Queries.Unknown)
		asserts += int64(st.Asserts)
		solverS += st.Queries.Time.Seconds()
		for _, n := range st.CaseAsserting {
			if n > 0 {
				distinct++
			}
		}
		if len(st.CaseAsserting) == 0 && st.Asserts > 0 {
			distinct += st.PathKinds["done"]
		}
		for i, s := range st.Samples {
			if i < 4 {
				samples = append(samples, map[string]interface{}{"run": rr.run.Name, "path": s})
			}
		}
		for n := range st.Notes {
			notes[n] = true
		}
	}
	for _, f := range def.Functions {
		fnSet[f] = true
	}
	if len(samples) == 0 {
		samples = append(samples, "no path reached an assertion")
	}
	var fns, ns []string
	for f := range fnSet {
		fns = append(fns, f)
	}
	sort.Strings(fns)
	for n := range notes {
		ns = append(ns, n)
	}
	sort.Strings(ns)
	cov["states"] = paths
	cov["transitions"] = steps
	cov["traces_validated_against_impl"] = validated
	cov["counterexamples_replayed"] = replayed
	cov["samples"] = samples
	cov["evaluations"] = queries
	cov["distinct_nontrivial"] = distinct
	cov["rule"] = def.Rule
	cov["functions_encoded"] = fns
	cov["queries"] = map[string]int64{"total": queries, "sat": sat, "unsat": unsat, "unknown": unknown}
	cov["obligations_discharged"] = asserts
	cov["solver_s"] = solverS
	cov["engine_notes"] = ns
	cov["inconclusive"] = inconclusive
	if len(crossChecks) > 0 {
		cov["cross_solver"] = crossChecks
	}
	if def.Bounds != nil {
		cov["bounds"] = def.Bounds(tier)
	}
	cov["outside_bounds"] = def.Outside
	cov["known_findings_reported"] = len(reported) - nViol
	ev := evidence{PropertyID: id, Tier: tier, Seed: seed, Level: "model_checking", Coverage: cov,
		Assumptions: def.Assumptions, WallS: time.Since(start).Seconds(), Violations: nViol}
	os.MkdirAll(filepath.Join(verifRoot(), "evidence"), 0o755)
	data, _ := json.MarshalIndent(ev, "", " ")
	if only == "" && repo == "/repo" {
		// evidence describes runs against /repo itself; development runs (a subset of the runs, or another tree) leave it alone
		os.WriteFile(filepath.Join(verifRoot(), "evidence", id+".json"), data, 0o644)
	}
	fmt.Printf("[%s/%s] exit=%d obligations_discharged=%d paths=%d queries=%d wall=%.1fs\n", id, tier, exit, asserts, paths, queries, time.Since(start).Seconds())
	return exit
}
