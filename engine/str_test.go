package main

// Translation validation of the string kernel: every summarised library
// function is evaluated on concrete strings through the symbolic encoding
// (symbols bound by an environment) and compared with the Go library.

import (
	"fmt"
	"math/rand"
	"strings"
	"testing"
)

func symString(b *Builder, so *StrOps, name string, cap int) (*Str, func(string, map[string]uint64)) {
	ln := b.SymBounded(name+"_len", 16, 0, uint64(cap))
	y := &SymStr{Len: b.ZExt(ln, 64)}
	for i := 0; i < cap; i++ {
		y.B = append(y.B, b.Sym(fmt.Sprintf("%s_b%d", name, i), 8))
	}
	bind := func(v string, env map[string]uint64) {
		env[name+"_len"] = uint64(len(v))
		for i := 0; i < cap; i++ {
			if i < len(v) {
				env[fmt.Sprintf("%s_b%d", name, i)] = uint64(v[i])
			} else {
				env[fmt.Sprintf("%s_b%d", name, i)] = uint64(rand.Intn(256)) // dead bytes are arbitrary
			}
		}
	}
	return so.FromSym(y), bind
}

func randStr(r *rand.Rand, alphabet string, max int) string {
	n := r.Intn(max + 1)
	bs := make([]byte, n)
	for i := range bs {
		bs[i] = alphabet[r.Intn(len(alphabet))]
	}
	return string(bs)
}

func TestReplaceConst(t *testing.T) {
	b := NewBuilder()
	so := &StrOps{b: b}
	r := rand.New(rand.NewSource(1))
	for _, tc := range []struct{ old, nw string }{{"!!", "!"}, {"\\*", ".*"}, {"a", ""}, {"ab", "abc"}, {"aa", "a"}, {"aaa", "b"}} {
		s, bind := symString(b, so, "s"+tc.old, 7)
		res := so.ReplaceConst(so.Concat(so.Const("x!"), s, so.Const("!y")), tc.old, tc.nw)
		for k := 0; k < 3000; k++ {
			v := randStr(r, "!ab\\*", 7)
			env := map[string]uint64{}
			bind(v, env)
			got := evalStr(res, env, map[int]uint64{})
			want := strings.Replace("x!"+v+"!y", tc.old, tc.nw, -1)
			if got != want {
				t.Fatalf("Replace(%q,%q,%q) = %q, want %q", "x!"+v+"!y", tc.old, tc.nw, got, want)
			}
		}
	}
}

func TestStringKernel(t *testing.T) {
	b := NewBuilder()
	so := &StrOps{b: b}
	r := rand.New(rand.NewSource(2))
	s, bindS := symString(b, so, "s", 6)
	u, bindU := symString(b, so, "u", 3)
	idx := so.Index(s, u)
	has := so.Contains(s, u)
	pre := so.HasPrefix(s, u)
	suf := so.HasSuffix(s, u)
	lt := so.Lt(s, u)
	eq := so.Eq(s, u)
	low := so.ToLower(s)
	up := so.ToUpper(s)
	cnt := so.CountByte(s, ',')
	cat := so.Concat(s, so.Const("-"), u)
	for k := 0; k < 20000; k++ {
		x, y := randStr(r, "aAb,B", 6), randStr(r, "aAb,B", 3)
		env := map[string]uint64{}
		bindS(x, env)
		bindU(y, env)
		memo := map[int]uint64{}
		chk := func(name string, got, want interface{}) {
			if fmt.Sprint(got) != fmt.Sprint(want) {
				t.Fatalf("%s(%q,%q) = %v, want %v", name, x, y, got, want)
			}
		}
		bi := func(v bool) uint64 {
			if v {
				return 1
			}
			return 0
		}
		chk("Index", int64(evalTerm(idx, env, memo)), strings.Index(x, y))
		chk("Contains", evalTerm(has, env, memo), bi(strings.Contains(x, y)))
		chk("HasPrefix", evalTerm(pre, env, memo), bi(strings.HasPrefix(x, y)))
		chk("HasSuffix", evalTerm(suf, env, memo), bi(strings.HasSuffix(x, y)))
		chk("Lt", evalTerm(lt, env, memo), bi(x < y))
		chk("Eq", evalTerm(eq, env, memo), bi(x == y))
		chk("ToLower", evalStr(low, env, memo), strings.ToLower(x))
		chk("ToUpper", evalStr(up, env, memo), strings.ToUpper(x))
		chk("Count", evalTerm(cnt, env, memo), strings.Count(x, ","))
		chk("Concat", evalStr(cat, env, memo), x+"-"+y)
	}
}
