package main

// The SSA interpreter: concrete structure, symbolic leaves, decision-prefix
// re-execution (every path is run from the start of the harness; the decision
// vector says which alternative to take at each symbolic choice point).

import (
	"fmt"
	"go/constant"
	"go/token"
	"go/types"
	"os"
	"strings"
	"sync"

	"golang.org/x/tools/go/ssa"
)

// ---- path termination ----

type pathEnd struct {
	kind string // done, infeasible, assume, unsupported, unwind, exit, steps
	msg  string
}

type goPanic struct {
	val  Value // IfaceV payload
	kind string
	msg  string
	pos  token.Pos
	site string
	fn   string // innermost repository function executing when the panic was raised
}

// PathResult describes how a path ended.
type PathResult struct {
	Kind     string // done, panic, assertfail, infeasible, assume, unsupported, unwind, exit, steps, unknown
	Msg      string
	Label    string // assertion label or panic site
	Decision []int
}

type Draw struct {
	Kind string  // u64,i64,bool,string,u8,case
	Syms []*Term // symbols to query (string: len + bytes)
	W    uint8
	Cap  int
	N    int // case: number of alternatives; chosen stored in Val
	Val  int
}

type TraceRec struct {
	Tag  string
	Vals []Value
}

type deferred struct {
	fn    Value
	args  []Value
	instr *ssa.Defer
}

const (
	stRunning = iota
	stComplete
	stPanic
)

type frame struct {
	in        *Interp
	caller    *frame
	fn        *ssa.Function
	env       map[ssa.Value]Value
	block     *ssa.BasicBlock
	prevBlock *ssa.BasicBlock
	defers    []*deferred
	result    Value
	status    int
	panicVal  *goPanic
	forks     map[ssa.Instruction]int
	phiDone   bool
}

type Interp struct {
	eng *Engine
	w   *Worker
	b   *Builder
	str *StrOps

	pc        []*Term
	prefix    []int
	pos       int
	decisions []int
	newWork   [][]int

	globals map[*ssa.Global]*Obj
	nobj    int
	draws   []Draw
	trace   []TraceRec
	steps   int
	depth   int

	locks     map[*Obj]int // mutex object -> mode (0 free, >0 readers, -1 writer)
	accesses  []Access
	trackAcc  bool
	notes     map[string]bool
	ufMemo    map[string]interface{}
	ufApps    map[string][]ufApp
	opts      *RunOpts
	asserts   int // obligations discharged (unsat of negation) on this path
	failLabel string
	witness   bool // reachability-witness mode: assertions are replaced by assert(false)
	env       *EnvHooks
	ghost     map[string]Value
	pcSet     map[int]bool
	pcMarks   []int
	lockTab   map[string]*lockState
	caseLabel string
	curOp     string
	siteHint  string
	sample    string
	fnStack   []*ssa.Function
	inverse    map[*SymStr]invRec // results of encoders whose decoder is their inverse
	raceDesc    string
	permuteMode int // 0 canonical, 1 one arbitrary-order range per execution, 2 every range
	permuteUsed bool
	inYield    bool
	inGo          int  // depth of synchronously executed `go` callees
	inBlockedHook bool
	cancelTarget  *ctxNode
	lazyBufs      map[*Str]bool
	blobByTerm    map[*Term]*blobRec
	ctxNodes      []*ctxNode
	encoded       []Value // values passed to (*json.Encoder).Encode, in order
	initPhase  bool
	blobs      map[*SymStr]*blobRec
	tsGhost    map[*Obj]TimeV
	drawCursor int
	prefs      []*Term // model preferences: asked of counterexample models so that they replay natively; never part of the path condition
	nowReplays int // clock readings taken while replaying draws (fresh symbols, see time.Now)
	sent       []sentRec
	spec      bool // speculative (side-effect free) evaluation of a branch arm
	merges    int
}

type RunOpts struct {
	Unwind      int  // max symbolic forks at the same branch instruction per frame
	MaxSteps    int  // safety net
	PermuteMaps bool // explore map iteration orders
	PermuteMax  int  // only maps with at most this many entries
	Witness     bool
	Params      map[string]int // harness parameters (verifParam)
	CheckPanics bool
	TrackAccess bool
	PanicViolation bool
	NoMerge        bool
	Stubs          map[string]string // callee -> generic stub ("codec.marshal", "codec.unmarshal", "noop")
	SplitMax       int // at most this many separators in a string given to strings.Split (0 = unbounded)
}

func (in *Interp) note(s string) {
	if in.notes == nil {
		in.notes = map[string]bool{}
	}
	in.notes[s] = true
}

func (in *Interp) unsupported(format string, a ...interface{}) {
	panic(&pathEnd{kind: "unsupported", msg: fmt.Sprintf(format, a...)})
}

// ---- decisions ----

// choose picks one of several alternatives, each guarded by a condition.
// Conditions need not be exclusive; infeasible ones are pruned by the solver.
// site is used for unwinding accounting (may be nil).
var slowDebug = os.Getenv("GOSYM_SLOW") != ""

var (
	forkStats map[string]int
	forkMu    sync.Mutex
)

func init() {
	if os.Getenv("GOSYM_FORKS") != "" {
		forkStats = map[string]int{}
	}
}

type invRec struct {
	kind string
	t    *Term
	s    *Str
	re   *reModel // kind "re": the expression object whose String() produced the text
}

type specAbort struct{}

// sentRec pairs a robust.Message appended by (*IRCServer).send with the irc.Message it renders.
type sentRec struct {
	reply *Obj
	rmsg  *Obj
	msg   Value
}

func (in *Interp) choose(conds []*Term) int {
	b := in.b
	if in.spec {
		// speculation may only continue when the choice is syntactically decided
		nlive, idx := 0, -1
		for i, c := range conds {
			if !c.IsFalse() {
				nlive++
				idx = i
			}
		}
		if nlive == 1 && conds[idx].IsTrue() {
			return idx
		}
		panic(specAbort{})
	}
	// syntactic pruning
	live := make([]int, 0, len(conds))
	for i, c := range conds {
		if c.IsFalse() {
			continue
		}
		// the negation of this alternative is already a conjunct of the path condition
		if in.pcSet != nil && in.pcSet[b.Not(c).id] {
			continue
		}
		live = append(live, i)
	}
	if len(live) == 0 {
		panic(&pathEnd{kind: "infeasible"})
	}
	if len(live) == 1 {
		c := conds[live[0]]
		if !c.IsTrue() {
			// single syntactically possible alternative; it must hold if the
			// alternatives were exhaustive, so just record it
			in.addPC(c)
		}
		return live[0]
	}
	for _, i := range live {
		if conds[i].IsTrue() {
			// a constant-true alternative in a non-exclusive choice: still a
			// genuine choice; fall through to the general case
			break
		}
	}
	if in.pos < len(in.prefix) {
		k := in.prefix[in.pos]
		in.pos++
		in.decisions = append(in.decisions, k)
		if k < 0 || k >= len(conds) {
			panic(fmt.Sprintf("decision replay out of range: %d of %d", k, len(conds)))
		}
		if !conds[k].IsTrue() {
			in.pcMarks = append(in.pcMarks, len(in.pc))
			in.addPC(conds[k])
		}
		return k
	}
	in.pos++
	if forkStats != nil {
		forkMu.Lock()
		forkStats[in.curFnName()+" @ "+in.siteHint]++
		forkMu.Unlock()
	}
	var feas []int
	for _, i := range live {
		if conds[i].IsTrue() {
			feas = append(feas, i)
			continue
		}
		if slowDebug {
			in.w.solver.ctx = in.curFnName() + " case=" + in.caseLabel
		}
		r := in.check(conds[i])
		switch r {
		case Sat:
			feas = append(feas, i)
		case Unknown:
			in.w.unknowns++
			// keep: cannot prune; flag the path as resting on an unknown
			feas = append(feas, i)
			in.note("solver-unknown-at-branch")
		}
	}
	_ = b
	if len(feas) == 0 {
		panic(&pathEnd{kind: "infeasible"})
	}
	for _, alt := range feas[1:] {
		w := make([]int, len(in.decisions)+1)
		copy(w, in.decisions)
		w[len(in.decisions)] = alt
		in.newWork = append(in.newWork, w)
	}
	k := feas[0]
	in.decisions = append(in.decisions, k)
	if !conds[k].IsTrue() {
		in.pcMarks = append(in.pcMarks, len(in.pc))
		in.addPC(conds[k])
	}
	return k
}

// branch decides a symbolic Boolean; returns the value taken.
func (in *Interp) branch(c *Term) bool {
	if c.IsTrue() {
		return true
	}
	if c.IsFalse() {
		return false
	}
	return in.choose([]*Term{c, in.b.Not(c)}) == 0
}

// assume adds c to the path condition, ending the path when it is infeasible.
func (in *Interp) assume(c *Term) {
	if c.IsTrue() {
		return
	}
	if in.spec {
		panic(specAbort{})
	}
	if c.IsFalse() {
		panic(&pathEnd{kind: "assume"})
	}
	if in.pcHas(c) {
		return
	}
	in.addPC(c)
	if in.pos >= len(in.prefix) {
		// new territory: check feasibility once
		if in.check(nil) == Unsat {
			panic(&pathEnd{kind: "assume"})
		}
	}
}

// constrain adds a side constraint that defines a fresh symbol (never infeasible).
func (in *Interp) constrain(c *Term) {
	if c.IsTrue() {
		return
	}
	if in.spec {
		panic(specAbort{})
	}
	in.addPC(c)
}

// addPC appends to the path condition unless the conjunct is already there.
func (in *Interp) addPC(c *Term) {
	if in.pcSet == nil {
		in.pcSet = map[int]bool{}
	}
	if in.pcSet[c.id] {
		return
	}
	in.pcSet[c.id] = true
	in.pc = append(in.pc, c)
}

// pcHas reports whether c is syntactically a conjunct of the path condition.
func (in *Interp) pcHas(c *Term) bool { return in.pcSet[c.id] }

// concretize forks over the feasible values of a bit-vector term (bounded).
func (in *Interp) concretize(t *Term, what string) uint64 {
	if t.IsConst() {
		return t.val
	}
	b := in.b
	if t.hi-t.lo <= 16 {
		conds := make([]*Term, 0, t.hi-t.lo+1)
		for v := t.lo; ; v++ {
			conds = append(conds, b.Eq(t, b.BV(v, t.w)))
			if v == t.hi {
				break
			}
		}
		k := in.choose(conds)
		return t.lo + uint64(k)
	}
	// model-guided enumeration; the values drawn from the solver are logged in
	// the decision vector so that re-execution is deterministic
	for n := 0; n < 64; n++ {
		v := in.logged(func() uint64 {
			r, m := in.model(nil, []*Term{t})
			if r == Unsat {
				panic(&pathEnd{kind: "infeasible"})
			}
			if r == Unknown {
				in.unsupported("concretize %s: solver unknown", what)
			}
			if v, ok := m[t.ref()]; ok {
				return v
			}
			return evalTerm(t, m, map[int]uint64{})
		})
		eq := b.Eq(t, b.BV(v, t.w))
		if in.choose([]*Term{eq, b.Not(eq)}) == 0 {
			return v
		}
	}
	in.unsupported("concretize %s: too many values", what)
	return 0
}

// logged records a solver-derived value in the decision vector (or replays it).
func (in *Interp) logged(get func() uint64) uint64 {
	if in.pos < len(in.prefix) {
		v := in.prefix[in.pos]
		in.pos++
		in.decisions = append(in.decisions, v)
		return uint64(v)
	}
	v := get()
	in.pos++
	in.decisions = append(in.decisions, int(v))
	return v
}

// ---- objects ----

func (in *Interp) newObj(v Value, t types.Type, site string) *Obj {
	in.nobj++
	return &Obj{id: in.nobj, val: v, typ: t, site: site, allocOp: in.curOp}
}

func (in *Interp) posStr(p token.Pos) string {
	if p == token.NoPos {
		return "?"
	}
	ps := in.eng.prog.Fset.Position(p)
	f := ps.Filename
	if i := strings.LastIndex(f, "/"); i >= 0 {
		f = f[i+1:]
	}
	return fmt.Sprintf("%s:%d", f, ps.Line)
}

// ---- constants ----

func (in *Interp) constValue(c *ssa.Const) Value {
	t := c.Type()
	if c.Value == nil {
		return in.zero(t)
	}
	if isNamed(t, "time", "Duration") || true {
		// fallthrough to generic handling
	}
	switch u := t.Underlying().(type) {
	case *types.Basic:
		switch {
		case u.Info()&types.IsBoolean != 0:
			return Sc{in.b.Bool(constant.BoolVal(c.Value))}
		case u.Info()&types.IsString != 0:
			return in.str.Const(constant.StringVal(c.Value))
		case u.Info()&types.IsFloat != 0:
			f, _ := constant.Float64Val(c.Value)
			return Sc{in.b.BV(floatBits(f), 64)}
		case u.Info()&types.IsInteger != 0:
			w, signed, _ := intWidth(t)
			if signed {
				return Sc{in.b.BV(uint64(c.Int64()), w)}
			}
			return Sc{in.b.BV(c.Uint64(), w)}
		}
	}
	// type parameters etc.
	in.unsupported("const of type %v", t)
	return nil
}

// ---- frames ----

func (fr *frame) get(v ssa.Value) Value {
	switch x := v.(type) {
	case *ssa.Const:
		return fr.in.constValue(x)
	case *ssa.Global:
		return PtrV{obj: fr.in.globalObj(x)}
	case *ssa.Function:
		return FuncV{Fn: x}
	case *ssa.Builtin:
		return FuncV{Builtin: "builtin:" + x.Name()}
	case nil:
		return nil
	}
	if r, ok := fr.env[v]; ok {
		return r
	}
	panic(fmt.Sprintf("get: no value for %T %v (%s) in %s", v, v, v.Name(), fr.fn))
}

func (in *Interp) globalObj(g *ssa.Global) *Obj {
	if o, ok := in.globals[g]; ok {
		return o
	}
	et := g.Type().(*types.Pointer).Elem()
	var v Value
	if g.Pkg != nil && in.eng.interpreted(g.Pkg.Pkg.Path()) {
		v = in.zero(et)
	} else {
		v = in.externalGlobal(g, et)
	}
	o := in.newObj(v, et, "global:"+g.String())
	o.heap = true
	in.globals[g] = o
	return o
}

// callFunction calls a function value.
func (in *Interp) callValue(caller *frame, fn Value, args []Value, pos token.Pos) Value {
	f, ok := fn.(FuncV)
	if !ok {
		in.unsupported("call of %T", fn)
	}
	if f.Nil {
		in.goPanicf(pos, "nilfunc", "call of nil function")
	}
	if f.Builtin != "" {
		return in.callBuiltinValue(caller, f, args, pos)
	}
	return in.callSSA(caller, f.Fn, args, f.Bindings, pos)
}

func (in *Interp) goPanicf(pos token.Pos, kind, format string, a ...interface{}) {
	msg := fmt.Sprintf(format, a...)
	panic(&goPanic{kind: kind, msg: msg, pos: pos, site: in.posStr(pos), fn: in.curFnName(),
		val: IfaceV{T: types.Typ[types.String], V: in.str.Const("runtime error: " + msg)}})
}

func (in *Interp) callSSA(caller *frame, fn *ssa.Function, args []Value, bindings []Value, pos token.Pos) (ret Value) {
	if fn == nil {
		in.goPanicf(pos, "nilfunc", "call of nil function")
	}
	// intrinsics and stubs first
	if len(in.opts.Stubs) > 0 {
		if kind, ok := in.opts.Stubs[fn.String()]; ok {
			return in.genericStub(kind, fn, args, pos)
		}
	}
	if h, ok := in.eng.intrinsic(fn); ok {
		return h(in, caller, fn, args, pos)
	}
	if fn.Name() == "init" && fn.Synthetic != "" && (!in.eng.interpretedFn(fn) || (fn.Pkg != nil && skipInit[fn.Pkg.Pkg.Path()])) {
		return nil // initializer of a library package that is not interpreted
	}
	if (len(fn.Blocks) == 0 || !in.eng.interpretedFn(fn)) && in.initPhase {
		// package initialisation: library set-up calls (flags, templates, metrics,
		// executable paths) are irrelevant to the harness; give them opaque results
		in.note("init-lenient:" + fn.String())
		return in.lenientResult(fn)
	}
	if len(fn.Blocks) == 0 || !in.eng.interpretedFn(fn) {
		in.unsupported("callee %s (no body / not interpreted) at %s", fn.String(), in.posStr(pos))
	}
	in.depth++
	if in.depth > 200 {
		in.unsupported("call depth exceeded at %s", fn.String())
	}
	in.fnStack = append(in.fnStack, fn)
	defer func() { in.depth--; in.fnStack = in.fnStack[:len(in.fnStack)-1] }()

	fr := &frame{in: in, caller: caller, fn: fn, env: make(map[ssa.Value]Value, 16)}
	for i, p := range fn.Params {
		fr.env[p] = args[i]
	}
	for i, fv := range fn.FreeVars {
		fr.env[fv] = bindings[i]
	}
	for _, l := range fn.Locals {
		fr.env[l] = PtrV{obj: in.newObj(in.zero(l.Type().(*types.Pointer).Elem()), l.Type().(*types.Pointer).Elem(), "local:"+fn.Name()+"."+l.Comment)}
	}
	fr.block = fn.Blocks[0]

	defer func() {
		if fr.status == stComplete {
			return
		}
		r := recover()
		gp, ok := r.(*goPanic)
		if !ok {
			panic(r) // pathEnd or engine bug: propagate untouched
		}
		fr.status = stPanic
		fr.panicVal = gp
		fr.runDefers()
		// recovered (runDefers would have re-panicked otherwise)
		if fn.Recover != nil {
			fr.block = fn.Recover
			fr.prevBlock = nil
			fr.status = stRunning
			fr.run()
			ret = fr.result
			fr.status = stComplete
		} else {
			ret = in.zeroResults(fn)
			fr.status = stComplete
		}
	}()
	fr.run()
	fr.status = stComplete
	if fn.Name() == "send" && len(args) == 3 && fn.Signature.Recv() != nil {
		in.captureSend(args, fr.result)
	}
	return fr.result
}

// captureSend records the structured message behind each robust.Message that
// (*IRCServer).send appends to a reply context (ghost state for the oracles).
func (in *Interp) captureSend(args []Value, res Value) {
	rp, ok1 := args[1].(PtrV)
	out, ok2 := res.(PtrV)
	if !ok1 || !ok2 || rp.obj == nil || out.obj == nil {
		return
	}
	if n := len(in.sent); n > 0 && in.sent[n-1].rmsg == out.obj {
		return
	}
	in.sent = append(in.sent, sentRec{reply: rp.obj, rmsg: out.obj, msg: args[2]})
}

// curFnName names the innermost function of the repository (not harness, not library) on the stack.
func (in *Interp) curFnName() string {
	for i := len(in.fnStack) - 1; i >= 0; i-- {
		f := in.fnStack[i]
		if strings.HasPrefix(f.Name(), "verif") {
			continue
		}
		if f.Package() != nil && strings.HasPrefix(f.Package().Pkg.Path(), repoMod) {
			n := f.Name()
			if f.Parent() != nil {
				n = f.Parent().Name() + "$" + n
			}
			return n
		}
	}
	if len(in.fnStack) > 0 {
		return in.fnStack[len(in.fnStack)-1].Name()
	}
	return "?"
}

func (in *Interp) zeroResults(fn *ssa.Function) Value {
	res := fn.Signature.Results()
	switch res.Len() {
	case 0:
		return nil
	case 1:
		return in.zero(res.At(0).Type())
	}
	return in.zero(res)
}

func (fr *frame) runDefers() {
	for len(fr.defers) > 0 {
		d := fr.defers[len(fr.defers)-1]
		fr.defers = fr.defers[:len(fr.defers)-1]
		fr.runDefer(d)
	}
	if fr.status == stPanic && fr.panicVal != nil {
		panic(fr.panicVal)
	}
}

func (fr *frame) runDefer(d *deferred) {
	ok := false
	defer func() {
		if !ok {
			r := recover()
			if gp, isgp := r.(*goPanic); isgp {
				// deferred call panicked: replaces the current panic
				fr.status = stPanic
				fr.panicVal = gp
				return
			}
			panic(r)
		}
	}()
	fr.in.callValue(fr, d.fn, d.args, d.instr.Pos())
	ok = true
}

func (fr *frame) run() {
	in := fr.in
	for fr.block != nil {
		blk := fr.block
		// phis first, evaluated simultaneously
		nphi := 0
		var phiVals []Value
		for _, ins := range blk.Instrs {
			phi, ok := ins.(*ssa.Phi)
			if !ok {
				break
			}
			nphi++
			if fr.phiDone {
				continue
			}
			for i, pred := range blk.Preds {
				if pred == fr.prevBlock {
					phiVals = append(phiVals, fr.get(phi.Edges[i]))
					break
				}
			}
		}
		if !fr.phiDone {
			for i := 0; i < nphi; i++ {
				fr.env[blk.Instrs[i].(*ssa.Phi)] = phiVals[i]
			}
		}
		fr.phiDone = false
		jumped := false
		for _, ins := range blk.Instrs[nphi:] {
			in.steps++
			if in.steps&1023 == 0 && memExceeded.Load() {
				in.unsupported("memory bound of the engine reached (heap above %d GiB); the run is abandoned rather than left to the OOM killer", memLimitGiB)
			}
			if in.steps > in.opts.MaxSteps {
				panic(&pathEnd{kind: "steps", msg: "step limit"})
			}
			j := fr.visit(ins)
			if traceOn && fr.fn.Pkg != nil && strings.HasPrefix(fr.fn.Pkg.Pkg.Path(), repoMod) {
				if v, ok := ins.(ssa.Value); ok {
					fmt.Fprintf(os.Stderr, "%s %s: %s = %s  => %s\n", fr.fn.Name(), in.posStr(ins.Pos()), v.Name(), ins.String(), in.showValue(fr.env[v]))
				} else {
					fmt.Fprintf(os.Stderr, "%s %s: %s\n", fr.fn.Name(), in.posStr(ins.Pos()), ins.String())
				}
			}
			if j {
				jumped = true
				break
			}
		}
		if !jumped {
			panic(fmt.Sprintf("block %s of %s fell through", blk, fr.fn))
		}
	}
}

// visit executes one instruction; returns true when control was transferred.
func (fr *frame) visit(instr ssa.Instruction) bool {
	in := fr.in
	b := in.b
	if forkStats != nil {
		if p := instr.Pos(); p.IsValid() {
			in.siteHint = in.posStr(p)
		}
	}
	switch x := instr.(type) {
	case *ssa.DebugRef:
	case *ssa.UnOp:
		fr.env[x] = in.unop(fr, x)
	case *ssa.BinOp:
		fr.env[x] = in.binop(x.Op, x.X.Type(), fr.get(x.X), fr.get(x.Y), x.Pos())
	case *ssa.Call:
		fr.env[x] = in.doCall(fr, &x.Call, x.Pos())
	case *ssa.ChangeInterface:
		fr.env[x] = fr.get(x.X)
	case *ssa.ChangeType:
		fr.env[x] = fr.get(x.X)
	case *ssa.Convert:
		fr.env[x] = in.convert(x.Type(), x.X.Type(), fr.get(x.X), x.Pos())
	case *ssa.MakeInterface:
		fr.env[x] = IfaceV{T: x.X.Type(), V: fr.get(x.X)}
	case *ssa.Extract:
		fr.env[x] = fr.get(x.Tuple).(TupleV).E[x.Index]
	case *ssa.Slice:
		fr.env[x] = in.sliceOp(fr, x)
	case *ssa.Return:
		switch len(x.Results) {
		case 0:
			fr.result = nil
		case 1:
			fr.result = fr.get(x.Results[0])
		default:
			e := make([]Value, len(x.Results))
			for i, r := range x.Results {
				e[i] = fr.get(r)
			}
			fr.result = TupleV{E: e}
		}
		fr.block = nil
		return true
	case *ssa.RunDefers:
		fr.runDefers()
	case *ssa.Panic:
		v := fr.get(x.X)
		iv, _ := v.(IfaceV)
		msg := "explicit panic"
		if s, ok := iv.V.(*Str); ok {
			if c, ok2 := s.Concrete(); ok2 {
				msg = c
			}
		}
		panic(&goPanic{val: iv, kind: "explicit", msg: msg, pos: x.Pos(), site: in.posStr(x.Pos()), fn: in.curFnName()})
	case *ssa.Send:
		in.chanSend(fr.get(x.Chan), fr.get(x.X), x.Pos())
	case *ssa.Store:
		in.store(fr.get(x.Addr).(PtrV), fr.get(x.Val), x.Pos())
	case *ssa.If:
		c := fr.get(x.Cond).(Sc).T
		var taken bool
		if c.IsConst() {
			taken = c.IsTrue()
		} else {
			if fr.forks == nil {
				fr.forks = map[ssa.Instruction]int{}
			}
			if !in.opts.NoMerge && fr.tryMerge(x, c) {
				return true
			}
			fr.forks[x]++
			if fr.forks[x] > in.opts.Unwind {
				// only an unwinding failure if continuing is still a real choice
				panic(&pathEnd{kind: "unwind", msg: fmt.Sprintf("branch at %s in %s", in.posStr(x.Cond.Pos()), fr.fn.Name())})
			}
			taken = in.branch(c)
		}
		succ := 1
		if taken {
			succ = 0
		}
		fr.prevBlock, fr.block = fr.block, fr.block.Succs[succ]
		return true
	case *ssa.Jump:
		fr.prevBlock, fr.block = fr.block, fr.block.Succs[0]
		return true
	case *ssa.Defer:
		fn, args := in.prepareCall(fr, &x.Call, x.Pos())
		fr.defers = append(fr.defers, &deferred{fn: fn, args: args, instr: x})
	case *ssa.Go:
		fn, args := in.prepareCall(fr, &x.Call, x.Pos())
		in.goStmt(fr, fn, args, x.Pos())
	case *ssa.MakeChan:
		sz := fr.get(x.Size).(Sc).T
		in.nobj++
		fr.env[x] = ChanV{c: &ChanObj{cap: int(in.concretize(sz, "chan size")), id: in.nobj}}
	case *ssa.Alloc:
		et := x.Type().(*types.Pointer).Elem()
		if x.Heap {
			o := in.newObj(in.zero(et), et, in.posStr(x.Pos())+":"+x.Comment)
			o.heap = true
			fr.env[x] = PtrV{obj: o}
		} else {
			p := fr.env[x].(PtrV)
			p.obj.val = in.zero(et)
		}
	case *ssa.MakeSlice:
		et := x.Type().Underlying().(*types.Slice).Elem()
		ln := fr.get(x.Len).(Sc).T
		cp := fr.get(x.Cap).(Sc).T
		if !ln.IsConst() {
			// negative length panics
			if in.opts.CheckPanics || true {
				if in.branch(b.SLt(ln, b.BV(0, 64))) {
					in.goPanicf(x.Pos(), "makeslice", "makeslice: len out of range")
				}
			}
		}
		if bt, isB := et.Underlying().(*types.Basic); isB && bt.Kind() == types.Uint8 && !ln.IsConst() && cp == ln && isReadBuffer(x) {
			// a byte buffer of symbolic size (read buffers sized by a length prefix): a lazily
			// filled view; io.ReadFull on a modelled reader gives it its content
			ph := &Str{segs: []Seg{{sym: &SymStr{Len: ln}}}}
			if in.lazyBufs == nil {
				in.lazyBufs = map[*Str]bool{}
			}
			in.lazyBufs[ph] = true
			in.note("make([]byte, n) with symbolic n: lazily filled read buffer")
			fr.env[x] = BytesV{S: ph}
			break
		}
		n := int(int64(in.concretize(ln, "make len")))
		c := n
		if cp != ln {
			if !cp.IsConst() && cp.hi < 1<<12 && ln.IsConst() {
				// a symbolic capacity only matters for aliasing between appends; take
				// the largest possible value instead of forking over all of them
				in.note("make: symbolic capacity replaced by its upper bound")
				c = int(cp.hi)
				if c < n {
					c = n
				}
			} else {
				c = int(int64(in.concretize(cp, "make cap")))
			}
		}
		if n < 0 || c < n {
			in.goPanicf(x.Pos(), "makeslice", "makeslice: len out of range")
		}
		if c > 1<<16 {
			in.unsupported("make slice of %d elements", c)
		}
		e := make([]Value, c)
		for i := range e {
			e[i] = in.zero(et)
		}
		o := in.newObj(&ArrayV{E: e}, types.NewArray(et, int64(c)), in.posStr(x.Pos())+":makeslice")
		o.heap = true
		fr.env[x] = SliceV{arr: o, off: 0, len: n, cap: c}
	case *ssa.MakeMap:
		mt := x.Type().Underlying().(*types.Map)
		fr.env[x] = MapV{m: in.newMap(mt, in.posStr(x.Pos()))}
	case *ssa.Range:
		fr.env[x] = in.rangeIter(fr.get(x.X), x.X.Type())
	case *ssa.Next:
		fr.env[x] = in.rangeNext(fr, fr.get(x.Iter), x)
	case *ssa.FieldAddr:
		p := fr.get(x.X).(PtrV)
		if p.IsNil() {
			in.goPanicf(x.Pos(), "nilderef", "invalid memory address or nil pointer dereference")
		}
		np := make([]PathElem, len(p.path)+1)
		copy(np, p.path)
		np[len(p.path)] = PathElem{idx: x.Field}
		fr.env[x] = PtrV{obj: p.obj, path: np}
	case *ssa.Field:
		sv := fr.get(x.X)
		switch s := sv.(type) {
		case *StructV:
			fr.env[x] = copyVal(s.F[x.Field])
		default:
			fr.env[x] = in.opaqueField(sv, x)
		}
	case *ssa.IndexAddr:
		fr.env[x] = in.indexAddr(fr, x)
	case *ssa.Index:
		fr.env[x] = in.indexOp(fr, x)
	case *ssa.Lookup:
		fr.env[x] = in.lookupOp(fr, x)
	case *ssa.MapUpdate:
		in.mapUpdate(fr.get(x.Map), fr.get(x.Key), fr.get(x.Value), x.Pos())
	case *ssa.TypeAssert:
		fr.env[x] = in.typeAssert(fr, x)
	case *ssa.MakeClosure:
		bs := make([]Value, len(x.Bindings))
		for i, bd := range x.Bindings {
			bs[i] = fr.get(bd)
		}
		fr.env[x] = FuncV{Fn: x.Fn.(*ssa.Function), Bindings: bs}
	case *ssa.Select:
		fr.env[x] = in.selectOp(fr, x)
	case *ssa.SliceToArrayPointer:
		in.unsupported("SliceToArrayPointer")
	default:
		in.unsupported("instruction %T at %s", instr, in.posStr(instr.Pos()))
	}
	return false
}

func (in *Interp) prepareCall(fr *frame, call *ssa.CallCommon, pos token.Pos) (Value, []Value) {
	v := fr.get(call.Value)
	var args []Value
	var fn Value
	if call.Method == nil {
		fn = v
	} else {
		recv, ok := v.(IfaceV)
		if !ok {
			in.unsupported("invoke on %T", v)
		}
		if recv.T == nil {
			in.goPanicf(pos, "nilderef", "invalid memory address or nil pointer dereference (method %s on nil interface)", call.Method.Name())
		}
		if o, isO := recv.V.(OpaqueV); isO && strings.HasPrefix(o.Tag, "lib:") {
			// method of an opaque library object created during package initialisation
			in.note("init-lenient:method " + call.Method.Name())
			sig := call.Method.Type().(*types.Signature)
			return FuncV{Builtin: "lenientmethod", Recv: sig}, nil
		} else if bi, ok := in.modelMethod(recv, call.Method); ok {
			fn = bi
		} else {
			f := in.eng.prog.LookupMethod(recv.T, call.Method.Pkg(), call.Method.Name())
			if f == nil {
				in.unsupported("method %s not found on %v", call.Method.Name(), recv.T)
			}
			fn = FuncV{Fn: f}
		}
		args = append(args, recv.V)
	}
	for _, a := range call.Args {
		args = append(args, fr.get(a))
	}
	return fn, args
}

func (in *Interp) doCall(fr *frame, call *ssa.CallCommon, pos token.Pos) Value {
	fn, args := in.prepareCall(fr, call, pos)
	return in.callValue(fr, fn, args, pos)
}

func floatBits(f float64) uint64 {
	return mathFloat64bits(f)
}

// debugging aid
func (in *Interp) dbg(format string, a ...interface{}) {
	if os.Getenv("GOSYM_DEBUG") != "" {
		fmt.Fprintf(os.Stderr, format+"\n", a...)
	}
}

func (in *Interp) showValue(v Value) string {
	switch x := v.(type) {
	case Sc:
		return showTerm(x.T, 5)
	case *Str:
		return x.String()
	case PtrV:
		if x.obj == nil {
			return "nil"
		}
		return fmt.Sprintf("&obj%d%v", x.obj.id, x.path)
	case SliceV:
		return fmt.Sprintf("slice(off=%d len=%d cap=%d)", x.off, x.len, x.cap)
	case TupleV:
		var parts []string
		for _, e := range x.E {
			parts = append(parts, in.showValue(e))
		}
		return "(" + strings.Join(parts, ", ") + ")"
	case nil:
		return "-"
	}
	return fmt.Sprintf("%T", v)
}

// ---- branch merging (if-conversion of side-effect free diamonds) ----

func pureInstr(ins ssa.Instruction) bool {
	switch x := ins.(type) {
	case *ssa.BinOp:
		return x.Op != token.QUO && x.Op != token.REM
	case *ssa.UnOp:
		return x.Op != token.ARROW
	case *ssa.Convert, *ssa.ChangeType, *ssa.ChangeInterface, *ssa.MakeInterface, *ssa.Field, *ssa.FieldAddr,
		*ssa.IndexAddr, *ssa.Index, *ssa.Lookup, *ssa.Extract, *ssa.DebugRef, *ssa.Slice:
		return true
	case *ssa.Call:
		if bi, ok := x.Call.Value.(*ssa.Builtin); ok {
			switch bi.Name() {
			case "len", "cap":
				return true
			}
		}
		return false
	}
	return false
}

// armOK reports whether blk is a small pure block that ends with a jump to join.
func armOK(blk, join *ssa.BasicBlock) bool {
	if len(blk.Preds) != 1 || len(blk.Instrs) == 0 || len(blk.Instrs) > 16 {
		return false
	}
	last := blk.Instrs[len(blk.Instrs)-1]
	if _, ok := last.(*ssa.Jump); !ok || blk.Succs[0] != join {
		return false
	}
	for _, ins := range blk.Instrs[:len(blk.Instrs)-1] {
		if !pureInstr(ins) {
			return false
		}
	}
	return true
}

func (fr *frame) tryMerge(x *ssa.If, cond *Term) bool {
	in := fr.in
	if in.spec {
		return false
	}
	blk := x.Block()
	T, F := blk.Succs[0], blk.Succs[1]
	var join *ssa.BasicBlock
	var armT, armF *ssa.BasicBlock // nil = edge straight from blk
	switch {
	case len(T.Succs) == 1 && len(F.Succs) == 1 && T.Succs[0] == F.Succs[0] && T != F && armOK(T, T.Succs[0]) && armOK(F, F.Succs[0]):
		join, armT, armF = T.Succs[0], T, F
	case len(T.Succs) == 1 && T.Succs[0] == F && armOK(T, F):
		join, armT = F, T
	case len(F.Succs) == 1 && F.Succs[0] == T && armOK(F, T):
		join, armF = T, F
	default:
		return fr.tryFuse(x, cond)
	}
	// the join must not have other phis edges we cannot express: fine, we only
	// set the phis for this entry.
	saved := map[ssa.Value]Value{}
	run := func(arm *ssa.BasicBlock) (ok bool) {
		if arm == nil {
			return true
		}
		in.spec = true
		defer func() {
			in.spec = false
			if r := recover(); r != nil {
				switch r.(type) {
				case specAbort, *goPanic:
					ok = false
				case *pathEnd:
					ok = false
				default:
					panic(r)
				}
			}
		}()
		for _, ins := range arm.Instrs[:len(arm.Instrs)-1] {
			if v, isv := ins.(ssa.Value); isv {
				if old, had := fr.env[v]; had {
					saved[v] = old
				}
			}
			fr.visit(ins)
		}
		return true
	}
	restore := func() {
		for v, old := range saved {
			fr.env[v] = old
		}
	}
	if !run(armT) || !run(armF) {
		restore()
		return false
	}
	// phis of the join
	predT, predF := blk, blk
	if armT != nil {
		predT = armT
	}
	if armF != nil {
		predF = armF
	}
	type pv struct {
		phi *ssa.Phi
		v   Value
	}
	var vals []pv
	for _, ins := range join.Instrs {
		phi, ok := ins.(*ssa.Phi)
		if !ok {
			break
		}
		var vt, vf Value
		for i, pred := range join.Preds {
			if pred == predT {
				vt = fr.get(phi.Edges[i])
			}
			if pred == predF {
				vf = fr.get(phi.Edges[i])
			}
		}
		mv, ok := in.mergeValues(cond, vt, vf)
		if !ok {
			restore()
			return false
		}
		vals = append(vals, pv{phi, mv})
	}
	for _, e := range vals {
		fr.env[e.phi] = e.v
	}
	in.merges++
	fr.prevBlock, fr.block = predT, join
	fr.phiDone = true
	return true
}

// mergeValues builds ite(c, x, y) when the value kind allows it.
func (in *Interp) mergeValues(c *Term, x, y Value) (Value, bool) {
	switch a := x.(type) {
	case Sc:
		if b, ok := y.(Sc); ok && a.T.w == b.T.w {
			return Sc{in.b.Ite(c, a.T, b.T)}, true
		}
	case *Str:
		if b, ok := y.(*Str); ok {
			if a == b {
				return a, true
			}
			if a.Cap() > 64 || b.Cap() > 64 {
				return nil, false
			}
			return in.str.Ite(c, a, b), true
		}
	case PtrV:
		if b, ok := y.(PtrV); ok && ptrEqual(a, b) {
			return a, true
		}
	case TimeV:
		if b, ok := y.(TimeV); ok {
			return in.iteTime(c, a, b)
		}
	case IfaceV:
		if b, ok := y.(IfaceV); ok && a.T == nil && b.T == nil {
			return a, true
		}
	case nil:
		if y == nil {
			return nil, true
		}
	}
	return nil, false
}

// iteTime merges two abstract times into ite(c, a, b) when their kinds allow it.
func (in *Interp) iteTime(c *Term, a, b TimeV) (Value, bool) {
	bd := in.b
	switch {
	case a.Kind == TimeZero && b.Kind == TimeZero:
		return a, true
	case a.Kind == TimeZero:
		return TimeV{Kind: b.Kind, V: b.V, Z: bd.Or(c, in.zflag(b))}, true
	case b.Kind == TimeZero:
		return TimeV{Kind: a.Kind, V: a.V, Z: bd.Or(bd.Not(c), in.zflag(a))}, true
	case a.Kind == b.Kind:
		z := bd.Ite(c, in.zflag(a), in.zflag(b))
		r := TimeV{Kind: a.Kind, V: bd.Ite(c, a.V, b.V)}
		if !z.IsFalse() {
			r.Z = z
		}
		return r, true
	}
	return nil, false
}

func (in *Interp) check(extra *Term) SatResult {
	in.w.solver.marks = in.pcMarks
	return in.w.solver.Check(in.pc, extra)
}

func (in *Interp) model(extra *Term, syms []*Term) (SatResult, map[string]uint64) {
	in.w.solver.marks = in.pcMarks
	return in.w.solver.Model(in.pc, extra, syms)
}

// genericStub implements the per-check stub kinds.
func (in *Interp) genericStub(kind string, fn *ssa.Function, args []Value, pos token.Pos) Value {
	switch kind {
	case "noop":
		return in.zeroResults(fn)
	case "codec.marshal":
		// func (m *T) marshal() []byte  /  func marshal(m *T) []byte
		p, ok := args[0].(PtrV)
		if !ok || p.IsNil() {
			in.goPanicf(pos, "nilderef", "marshal of nil")
		}
		return BytesV{S: in.newBlob(fn.Name(), "", in.load(p, pos), nil)}
	case "codec.unmarshal":
		// func unmarshal(b []byte) *T
		data := in.toStrArg(args[0], pos)
		rec, found := in.blobOf(data)
		if !found {
			in.unsupported("abstract codec: %s applied to bytes that no marshal of this path produced", fn.Name())
		}
		et := fn.Signature.Results().At(0).Type().(*types.Pointer).Elem()
		o := in.newObj(in.deepCopy(rec.msg, map[*Obj]*Obj{}), et, "unmarshal")
		o.heap = true
		return PtrV{obj: o}
	}
	in.unsupported("unknown stub kind %s", kind)
	return nil
}

// lenientResult fabricates a result for a library call made during package initialisation.
func (in *Interp) lenientResult(fn *ssa.Function) Value {
	res := fn.Signature.Results()
	mk := func(t types.Type) Value {
		switch u := t.Underlying().(type) {
		case *types.Interface:
			if u.NumMethods() == 1 && u.Method(0).Name() == "Error" {
				return IfaceV{}
			}
			return IfaceV{T: types.Typ[types.UnsafePointer], V: OpaqueV{Tag: "lib:" + fn.Name()}}
		case *types.Pointer:
			if _, isStruct := u.Elem().Underlying().(*types.Struct); isStruct {
				o := in.newObj(OpaqueV{Tag: "lib:" + fn.Name()}, u.Elem(), "lib")
				o.heap = true
				return PtrV{obj: o}
			}
			o := in.newObj(in.zero(u.Elem()), u.Elem(), "lib")
			o.heap = true
			return PtrV{obj: o}
		}
		return in.zero(t)
	}
	switch res.Len() {
	case 0:
		return nil
	case 1:
		return mk(res.At(0).Type())
	}
	e := make([]Value, res.Len())
	for i := range e {
		e[i] = mk(res.At(i).Type())
	}
	return TupleV{E: e}
}

// tryFuse handles short-circuit conditions (a && b, a || b used directly as a
// branch condition): the second test sits in a pure block that shares one
// target with the first branch.  Both tests are fused into one two-way branch.
func (fr *frame) tryFuse(x *ssa.If, cond *Term) bool {
	in := fr.in
	b := in.b
	blk := x.Block()
	for side := 0; side < 2; side++ {
		arm, other := blk.Succs[side], blk.Succs[1-side]
		if arm == other || len(arm.Preds) != 1 || len(arm.Instrs) == 0 || len(arm.Instrs) > 16 {
			continue
		}
		last, ok := arm.Instrs[len(arm.Instrs)-1].(*ssa.If)
		if !ok {
			continue
		}
		pure := true
		for _, ins := range arm.Instrs[:len(arm.Instrs)-1] {
			if !pureInstr(ins) {
				pure = false
				break
			}
		}
		if !pure {
			continue
		}
		t1, f1 := arm.Succs[0], arm.Succs[1]
		if t1 != other && f1 != other {
			continue
		}
		// the shared target must not distinguish its two predecessors by phis
		phiOK := true
		for _, ins := range other.Instrs {
			phi, isPhi := ins.(*ssa.Phi)
			if !isPhi {
				break
			}
			var v0, v1 ssa.Value
			for i, pred := range other.Preds {
				if pred == blk {
					v0 = phi.Edges[i]
				}
				if pred == arm {
					v1 = phi.Edges[i]
				}
			}
			if v0 != v1 {
				phiOK = false
			}
		}
		if !phiOK {
			continue
		}
		// evaluate the arm speculatively
		saved := map[ssa.Value]Value{}
		okRun := func() (ok bool) {
			in.spec = true
			defer func() {
				in.spec = false
				if r := recover(); r != nil {
					switch r.(type) {
					case specAbort, *goPanic, *pathEnd:
						ok = false
					default:
						panic(r)
					}
				}
			}()
			for _, ins := range arm.Instrs[:len(arm.Instrs)-1] {
				if v, isv := ins.(ssa.Value); isv {
					if old, had := fr.env[v]; had {
						saved[v] = old
					}
				}
				fr.visit(ins)
			}
			return true
		}()
		if !okRun {
			for v, old := range saved {
				fr.env[v] = old
			}
			continue
		}
		c2, isSc := fr.get(last.Cond).(Sc)
		if !isSc {
			continue
		}
		armCond := cond
		if side == 1 {
			armCond = b.Not(cond)
		}
		// deep = the arm is taken and its own test leads away from the shared target
		var deep *Term
		var deepTarget *ssa.BasicBlock
		if t1 == other {
			deep, deepTarget = b.And(armCond, b.Not(c2.T)), f1
		} else {
			deep, deepTarget = b.And(armCond, c2.T), t1
		}
		in.merges++
		if in.branch(deep) {
			fr.prevBlock, fr.block = arm, deepTarget
		} else {
			fr.prevBlock, fr.block = blk, other
		}
		return true
	}
	return false
}

func (in *Interp) regInverse(res *Str, r invRec) {
	if len(res.segs) == 1 && res.segs[0].sym != nil {
		if in.inverse == nil {
			in.inverse = map[*SymStr]invRec{}
		}
		in.inverse[res.segs[0].sym] = r
	}
}

func (in *Interp) lookupInverse(s *Str, kind string) (invRec, bool) {
	if len(s.segs) == 1 && s.segs[0].sym != nil {
		if r, ok := in.inverse[s.segs[0].sym]; ok && r.kind == kind {
			return r, true
		}
	}
	return invRec{}, false
}

// isReadBuffer: the slice made here is handed directly to io.ReadFull (a read
// buffer sized by a length prefix).
func isReadBuffer(x *ssa.MakeSlice) bool {
	refs := x.Referrers()
	if refs == nil {
		return false
	}
	for _, r := range *refs {
		if c, ok := r.(*ssa.Call); ok {
			if f := c.Call.StaticCallee(); f != nil && f.String() == "io.ReadFull" && len(c.Call.Args) == 2 && c.Call.Args[1] == ssa.Value(x) {
				return true
			}
		}
	}
	return false
}
