package main

import (
	"sync/atomic"
	"runtime"
	"runtime/debug"
	"encoding/json"
	"fmt"
	"go/types"
	"os"
	"path/filepath"
	"sort"
	"strings"
	"sync"
	"time"

	"golang.org/x/tools/go/packages"
	"golang.org/x/tools/go/ssa"
	"golang.org/x/tools/go/ssa/ssautil"
)

const repoMod = "github.com/robustirc/robustirc"

type IntrinsicFn func(in *Interp, caller *frame, fn *ssa.Function, args []Value, pos tokenPos) Value

type Engine struct {
	prog       *ssa.Program
	pkgs       []*ssa.Package
	target     *ssa.Package // package holding the harness
	interpPkgs map[string]bool
	intr       map[string]IntrinsicFn
	redirect   map[string]string // callee -> harness function name
	initOrder  []*ssa.Package
	loadTime   time.Duration
	fnCache    sync.Map // *ssa.Function -> IntrinsicFn or nil marker
	encoded    sync.Map // function names executed symbolically
}

// stdlib packages whose bodies are interpreted as ordinary SSA
var interpStd = map[string]bool{
	"errors":          true,
	"encoding/binary": true,
	"gopkg.in/sorcix/irc.v2":          true,
	"gopkg.in/sorcix/irc.v2/internal": true,
}

// packages whose initializers are not run (reflection-driven registration only)
var skipInit = map[string]bool{
	"errors":                    true,
	"encoding/binary":           true,
	repoMod + "/internal/proto": true,
}

func (e *Engine) interpreted(path string) bool {
	if e.interpPkgs[path] {
		return true
	}
	return strings.HasPrefix(path, repoMod) || interpStd[path]
}

func (e *Engine) interpretedFn(fn *ssa.Function) bool {
	p := fn.Package()
	if p == nil {
		// synthetic wrappers, instantiated generics: decide by origin
		if o := fn.Origin(); o != nil && o.Package() != nil {
			return e.interpreted(o.Package().Pkg.Path())
		}
		if fn.Synthetic != "" {
			return true
		}
		return false
	}
	return e.interpreted(p.Pkg.Path())
}

// LoadEngine loads pkgPath from /repo's working tree with the harness overlay.
func LoadEngine(repo, pkgPattern string, overlay map[string][]byte) (*Engine, error) {
	start := time.Now()
	cfg := &packages.Config{
		Mode:    packages.LoadAllSyntax,
		Dir:     repo,
		Overlay: overlay,
		Env:     append(os.Environ(), "GOFLAGS=-mod=mod", "GOPROXY=off", "GOSUMDB=off", "GOTOOLCHAIN=local"),
	}
	pkgs, err := packages.Load(cfg, pkgPattern)
	if err != nil {
		return nil, err
	}
	var errs []string
	packages.Visit(pkgs, nil, func(p *packages.Package) {
		for _, e := range p.Errors {
			errs = append(errs, e.Error())
		}
	})
	if len(errs) > 0 {
		return nil, fmt.Errorf("load errors:\n%s", strings.Join(errs, "\n"))
	}
	prog, spkgs := ssautil.AllPackages(pkgs, ssa.InstantiateGenerics)
	prog.Build()
	e := &Engine{prog: prog, pkgs: spkgs, target: spkgs[0], interpPkgs: map[string]bool{}, intr: map[string]IntrinsicFn{}, redirect: map[string]string{}}
	registerIntrinsics(e)
	// init order: dependency order of interpreted packages
	seen := map[*types.Package]bool{}
	var visit func(p *types.Package)
	visit = func(p *types.Package) {
		if seen[p] {
			return
		}
		seen[p] = true
		imps := p.Imports()
		sort.Slice(imps, func(i, j int) bool { return imps[i].Path() < imps[j].Path() })
		for _, q := range imps {
			visit(q)
		}
		if e.interpreted(p.Path()) && !skipInit[p.Path()] {
			if sp := prog.Package(p); sp != nil {
				e.initOrder = append(e.initOrder, sp)
			}
		}
	}
	visit(e.target.Pkg)
	e.loadTime = time.Since(start)
	return e, nil
}

func (e *Engine) intrinsic(fn *ssa.Function) (IntrinsicFn, bool) {
	if v, ok := e.fnCache.Load(fn); ok {
		if v == nil {
			return nil, false
		}
		h := v.(IntrinsicFn)
		return h, h != nil
	}
	name := fn.String()
	if o := fn.Origin(); o != nil {
		name = o.String()
	}
	isTarget := fn.Pkg == e.target
	if o := fn.Origin(); o != nil && o.Pkg == e.target {
		isTarget = true
	}
	if len(fn.Blocks) == 0 && isTarget {
		nm := fn.Name()
		if k := strings.IndexByte(nm, '['); k > 0 {
			nm = nm[:k]
		}
		if h, ok := harnessAPI(nm); ok {
			e.fnCache.Store(fn, h)
			return h, true
		}
	}
	h, ok := e.intr[name]
	if !ok {
		if tgt, ok2 := e.redirect[name]; ok2 {
			tf := e.target.Func(tgt)
			if tf == nil {
				panic("redirect target not found: " + tgt)
			}
			h = func(in *Interp, caller *frame, _ *ssa.Function, args []Value, pos tokenPos) Value {
				return in.callSSA(caller, tf, args, nil, pos)
			}
			ok = true
		}
	}
	if !ok {
		e.fnCache.Store(fn, IntrinsicFn(nil))
		return nil, false
	}
	e.fnCache.Store(fn, h)
	return h, true
}

// ---- workers and exploration ----

type Worker struct {
	id          int
	b           *Builder
	solver      *Solver
	unknowns    int
	obligations int
}

type Violation struct {
	Harness  string
	Kind     string // assert, panic
	Label    string
	Msg      string
	Site     string
	Decision []int
	Draws    []DrawValue
	Stack    string
}

type DrawValue struct {
	Kind string `json:"kind"`
	U    uint64 `json:"u,omitempty"`
	S    []byte `json:"s,omitempty"`
}

type Stats struct {
	Paths        int
	PathKinds    map[string]int
	Steps        int64
	Asserts      int
	Queries      SolverStats
	Unsupported  map[string]int
	Unwind       map[string]int
	Notes        map[string]bool
	Violations   []*Violation
	Traces       []string
	Wall         time.Duration
	Cases        map[string]int // verifCase labels reached at path end
	Functions    map[string]bool
	Samples      []string
	SolverUnknown int
	CaseAsserting map[string]int // case label -> number of feasible paths that reached an assertion
	CasePaths     map[string]int
	SampleDraws   [][]DrawValue // witness inputs of passing paths (for differential validation)
}

type Explorer struct {
	eng     *Engine
	harness *ssa.Function
	opts    RunOpts
	workers int
	solver  string
	timeout int
	maxViolations int

	mu      sync.Mutex
	cond    *sync.Cond
	work    [][]int   // unowned items (initial)
	stacks  [][][]int // per worker LIFO stacks
	active  int
	stats   Stats
	stop    bool
	sampling bool
	violByLabel map[string]int
	deadline time.Time
	OnPath  func(in *Interp, res *PathResult) // optional per-path hook (under lock)
}

func NewExplorer(eng *Engine, harness string, opts RunOpts) (*Explorer, error) {
	fn := eng.target.Func(harness)
	if fn == nil {
		return nil, fmt.Errorf("harness function %s not found in %s", harness, eng.target.Pkg.Path())
	}
	if opts.Unwind == 0 {
		opts.Unwind = 8
	}
	if opts.SplitMax == 0 {
		opts.SplitMax = 3
	}
	if opts.MaxSteps == 0 {
		opts.MaxSteps = 20_000_000
	}
	ex := &Explorer{eng: eng, harness: fn, opts: opts, workers: 8, solver: "z3", timeout: 20000, maxViolations: 50}
	ex.cond = sync.NewCond(&ex.mu)
	ex.stats.PathKinds = map[string]int{}
	ex.stats.Unsupported = map[string]int{}
	ex.stats.Unwind = map[string]int{}
	ex.stats.Notes = map[string]bool{}
	ex.stats.Cases = map[string]int{}
	ex.stats.Functions = map[string]bool{}
	ex.stats.CaseAsserting = map[string]int{}
	ex.stats.CasePaths = map[string]int{}
	return ex, nil
}

func (ex *Explorer) Run() *Stats {
	start := time.Now()
	ex.work = [][]int{{}}
	ex.stacks = make([][][]int, ex.workers)
	var wg sync.WaitGroup
	for i := 0; i < ex.workers; i++ {
		wg.Add(1)
		go func(id int) {
			defer wg.Done()
			ex.workerLoop(id)
		}(i)
	}
	wg.Wait()
	ex.stats.Wall = time.Since(start)
	return &ex.stats
}

func (ex *Explorer) workerLoop(id int) {
	sv, err := NewSolver(ex.solver, ex.timeout)
	if err != nil {
		fmt.Fprintln(os.Stderr, "solver start failed:", err)
		return
	}
	if lf := os.Getenv("GOSYM_SMTLOG"); lf != "" {
		f, _ := os.Create(fmt.Sprintf("%s.%d", lf, id))
		sv.log = f
		defer f.Close()
	}
	w := &Worker{id: id, b: NewBuilder(), solver: sv}
	defer func() {
		ex.mu.Lock()
		ex.stats.Queries.Queries += w.solver.stats.Queries
		ex.stats.Queries.Sat += w.solver.stats.Sat
		ex.stats.Queries.Unsat += w.solver.stats.Unsat
		ex.stats.Queries.Unknown += w.solver.stats.Unknown
		ex.stats.Queries.Errors += w.solver.stats.Errors
		ex.stats.Queries.Time += w.solver.stats.Time
		for i := range ex.stats.Queries.Hist {
			ex.stats.Queries.Hist[i] += w.solver.stats.Hist[i]
		}
		ex.mu.Unlock()
		w.solver.Close()
	}()
	npaths := 0
	for {
		ex.mu.Lock()
		var item []int
		for {
			if ex.stop {
				break
			}
			if item = ex.takeWork(id); item != nil {
				break
			}
			if ex.active == 0 {
				break
			}
			ex.cond.Wait()
		}
		if item == nil {
			ex.cond.Broadcast()
			ex.mu.Unlock()
			return
		}
		ex.active++
		ex.mu.Unlock()

		// bound the memory of the term table: restart builder+solver periodically
		npaths++
		if len(w.b.terms) > 2_000_000 || w.solver.dead {
			w.solver.Close()
			sv, err := NewSolver(ex.solver, ex.timeout)
			if err != nil {
				fmt.Fprintln(os.Stderr, "solver restart failed:", err)
				return
			}
			sv.stats = w.solver.stats
			w.solver = sv
			w.b = NewBuilder()
		}

		in, res := ex.runPath(w, item)

		ex.mu.Lock()
		ex.active--
		ex.stats.Paths++
		ex.stats.PathKinds[res.Kind]++
		ex.stats.Steps += int64(in.steps)
		ex.stats.Asserts += in.asserts
		for n := range in.notes {
			ex.stats.Notes[n] = true
		}
		switch res.Kind {
		case "unsupported":
			ex.stats.Unsupported[res.Msg]++
		case "unwind", "steps":
			ex.stats.Unwind[res.Msg]++
		}
		if in.caseLabel != "" {
			ex.stats.CasePaths[in.caseLabel]++
		}
		if in.caseLabel != "" && (res.Kind == "done" || res.Kind == "assertfail" || res.Kind == "panic") {
			if _, ok := ex.stats.CaseAsserting[in.caseLabel]; !ok {
				ex.stats.CaseAsserting[in.caseLabel] = 0
			}
			if in.asserts > 0 || res.Kind == "assertfail" || (res.Kind == "done" && ex.opts.PanicViolation) {
				ex.stats.CaseAsserting[in.caseLabel]++
			}
		}
		if in.sample != "" && len(ex.stats.Samples) < 6 {
			ex.stats.Samples = append(ex.stats.Samples, in.sample)
		}
		if ex.OnPath != nil {
			ex.OnPath(in, res)
		}
		// push in reverse so that the first alternative is explored next (DFS locality)
		for k := len(in.newWork) - 1; k >= 0; k-- {
			ex.stacks[id] = append(ex.stacks[id], in.newWork[k])
		}
		if !ex.deadline.IsZero() && time.Now().After(ex.deadline) {
			ex.stop = true
			ex.stats.Notes["deadline-reached"] = true
		}
		ex.cond.Broadcast()
		ex.mu.Unlock()
	}
}

// takeWork (called with ex.mu held): own stack top first, then the unowned
// pool, then steal the oldest (shallowest) item of the fullest other stack.
func (ex *Explorer) takeWork(id int) []int {
	if st := ex.stacks[id]; len(st) > 0 {
		it := st[len(st)-1]
		ex.stacks[id] = st[:len(st)-1]
		return it
	}
	if len(ex.work) > 0 {
		it := ex.work[len(ex.work)-1]
		ex.work = ex.work[:len(ex.work)-1]
		return it
	}
	best, bn := -1, 0
	for k, st := range ex.stacks {
		if len(st) > bn {
			best, bn = k, len(st)
		}
	}
	if best < 0 {
		return nil
	}
	it := ex.stacks[best][0]
	ex.stacks[best] = ex.stacks[best][1:]
	return it
}

func (ex *Explorer) runPath(w *Worker, prefix []int) (in *Interp, res *PathResult) {
	in = &Interp{eng: ex.eng, w: w, b: w.b, str: &StrOps{b: w.b}, prefix: prefix,
		globals: map[*ssa.Global]*Obj{}, locks: map[*Obj]int{}, opts: &ex.opts,
		ufMemo: map[string]interface{}{}, ufApps: map[string][]ufApp{}, ghost: map[string]Value{},
		blobs: map[*SymStr]*blobRec{}, tsGhost: map[*Obj]TimeV{}}
	in.witness = ex.opts.Witness
	if ex.opts.PermuteMaps {
		in.permuteMode = 2
	}
	in.trackAcc = ex.opts.TrackAccess
	res = &PathResult{}
	defer func() {
		res.Decision = in.decisions
		r := recover()
		if r == nil {
			return
		}
		switch p := r.(type) {
		case *pathEnd:
			res.Kind, res.Msg = p.kind, p.msg
			if p.kind == "assertfail" {
				res.Label = p.msg
				label := p.msg
				if in.failLabel != "" {
					label = in.failLabel
				}
				ex.recordViolation(in, "assert", label, "assertion failed: "+p.msg, "")
			}
		case *goPanic:
			res.Kind, res.Msg, res.Label = "panic", p.msg, p.site
			if ex.opts.PanicViolation {
				ex.recordViolation(in, "panic", "panic:"+p.fn+":"+p.kind, p.msg+" at "+p.site, p.site)
			}
		default:
			// engine bug: report as unsupported with the message, never as pass
			res.Kind = "unsupported"
			res.Msg = fmt.Sprintf("engine error: %v", r)
			if os.Getenv("GOSYM_STACK") != "" {
				fmt.Fprintf(os.Stderr, "engine error: %v\n%s\n", r, debug.Stack())
			}
			if os.Getenv("GOSYM_DEBUG") != "" {
				panic(r)
			}
		}
	}()
	// package initialisation (concrete)
	in.initPhase = true
	for _, p := range ex.eng.initOrder {
		if f := p.Func("init"); f != nil {
			in.runInit(p, f)
		}
	}
	in.initPhase = false
	in.callSSA(nil, ex.harness, nil, nil, 0)
	res.Kind = "done"
	if in.asserts > 0 {
		ex.mu.Lock()
		want := len(ex.stats.Samples) < 6 && !ex.sampling
		if want {
			ex.sampling = true
		}
		ex.mu.Unlock()
		if want {
			d := in.modelDraws()
			if d != nil {
				ex.mu.Lock()
				if len(ex.stats.SampleDraws) < 4 {
					ex.stats.SampleDraws = append(ex.stats.SampleDraws, d)
				}
				ex.mu.Unlock()
			}
			js, _ := json.Marshal(d)
			if len(js) > 600 {
				js = append(js[:600], []byte("...")...)
			}
			in.sample = fmt.Sprintf("case=%q decisions=%d obligations=%d pc=%d witness_input=%s", in.caseLabel, len(in.decisions), in.asserts, len(in.pc), js)
			ex.mu.Lock()
			ex.sampling = false
			ex.mu.Unlock()
		}
	}
	return
}

// recordViolation extracts a model for the current path and stores the violation.
func (ex *Explorer) recordViolation(in *Interp, kind, label, msg, site string) {
	v := &Violation{Harness: ex.harness.Name(), Kind: kind, Label: label, Msg: msg, Site: site,
		Decision: append([]int{}, in.decisions...)}
	ex.mu.Lock()
	enough := ex.violByLabel != nil && ex.violByLabel[label] >= 2
	ex.mu.Unlock()
	if !enough {
		v.Draws = in.modelDraws()
	}
	ex.mu.Lock()
	defer ex.mu.Unlock()
	if ex.violByLabel == nil {
		ex.violByLabel = map[string]int{}
	}
	ex.violByLabel[label]++
	if ex.violByLabel[label] <= 2 && len(ex.stats.Violations) < 400 {
		ex.stats.Violations = append(ex.stats.Violations, v)
	}
}

// modelDraws asks the solver for a model of the current path condition and
// returns the concrete values of all nondet draws in order.
func (in *Interp) modelDraws() []DrawValue {
	var syms []*Term
	for _, d := range in.draws {
		syms = append(syms, d.Syms...)
	}
	r, m := Unknown, map[string]uint64(nil)
	if len(in.prefs) > 0 {
		r, m = in.model(in.b.And(in.prefs...), syms)
	}
	if r != Sat {
		r, m = in.model(nil, syms)
	}
	if r != Sat {
		return nil
	}
	memo := map[int]uint64{}
	out := make([]DrawValue, len(in.draws))
	for i, d := range in.draws {
		switch d.Kind {
		case "string":
			n := evalTerm(d.Syms[0], m, memo)
			if n > uint64(d.Cap) {
				n = uint64(d.Cap)
			}
			bs := make([]byte, n)
			for j := range bs {
				bs[j] = byte(evalTerm(d.Syms[1+j], m, memo))
			}
			out[i] = DrawValue{Kind: "string", S: bs}
		case "case":
			out[i] = DrawValue{Kind: "case", U: uint64(d.Val)}
		default:
			out[i] = DrawValue{Kind: d.Kind, U: evalTerm(d.Syms[0], m, memo)}
		}
	}
	return out
}

// harnessOverlay builds the overlay for symbolic analysis: the harness files
// plus the bodyless API declarations, placed virtually in the package directory.
func harnessOverlay(repo, pkgRel, pkgName string, files []string) (map[string][]byte, error) {
	ov := map[string][]byte{}
	for _, f := range files {
		data, err := os.ReadFile(f)
		if err != nil {
			return nil, err
		}
		ov[filepath.Join(repo, pkgRel, "zz_verif_"+filepath.Base(f))] = data
	}
	api, err := os.ReadFile(filepath.Join(verifRoot(), "harness/api/api_sym.go.tmpl"))
	if err != nil {
		return nil, err
	}
	ov[filepath.Join(repo, pkgRel, "zz_verif_api.go")] = []byte(strings.Replace(string(api), "package PKG", "package "+pkgName, 1))
	return ov, nil
}

func verifRoot() string {
	if r := os.Getenv("VERIF_ROOT"); r != "" {
		return r
	}
	return "/verif"
}

// RunSingle executes one path with tracing to stderr (development aid).
func (ex *Explorer) RunSingle(dec []int) {
	sv, err := NewSolver(ex.solver, ex.timeout)
	if err != nil {
		panic(err)
	}
	defer sv.Close()
	w := &Worker{b: NewBuilder(), solver: sv}
	traceOn = true
	in, res := ex.runPath(w, dec)
	fmt.Printf("RESULT kind=%s msg=%s label=%s decisions=%v\n", res.Kind, res.Msg, res.Label, in.decisions)
	for i, c := range in.pc {
		fmt.Printf("  pc[%d] %s\n", i, showTerm(c, 8))
	}
}

var traceOn bool

// addAPITemplate adds harness/api/api_<name>_{sym,native}.go.tmpl to an overlay (symbolic side).
func addAPITemplate(ov map[string][]byte, repo, pkgRel, pkgName, name string, sym bool) error {
	kind := "native"
	if sym {
		kind = "sym"
	}
	data, err := os.ReadFile(filepath.Join(verifRoot(), "harness/api", "api_"+name+"_"+kind+".go.tmpl"))
	if err != nil {
		return err
	}
	ov[filepath.Join(repo, pkgRel, "zz_verif_api_"+name+".go")] = []byte(strings.Replace(string(data), "package PKG", "package "+pkgName, 1))
	return nil
}

// runInit runs one package initializer; a library-dependent failure inside it
// is tolerated (noted) because set-up of flags, templates and metrics is not
// what harnesses depend on.  Package-level variables initialised after the
// failing statement keep their zero value.
func (in *Interp) runInit(p *ssa.Package, f *ssa.Function) {
	defer func() {
		if r := recover(); r != nil {
			switch x := r.(type) {
			case *goPanic:
				in.note("init-aborted:" + p.Pkg.Path() + ": " + x.msg + " at " + x.site)
			case *pathEnd:
				if x.kind == "unsupported" || x.kind == "exit" {
					in.note("init-aborted:" + p.Pkg.Path() + ": " + x.msg)
					return
				}
				panic(r)
			default:
				panic(r)
			}
		}
	}()
	in.callSSA(nil, f, nil, nil, 0)
}

// ---- memory watchdog ----
//
// Term tables of a runaway path can grow until the kernel kills the process,
// which would lose the verdicts of every other run.  A watchdog samples the
// heap; above the bound every interpreter abandons its path as unsupported
// (the run is then inconclusive, never a pass).

const memLimitGiB = 28

var memExceeded atomic.Bool

func init() {
	go func() {
		var ms runtime.MemStats
		for {
			time.Sleep(time.Second)
			runtime.ReadMemStats(&ms)
			if ms.HeapAlloc > memLimitGiB<<30 {
				memExceeded.Store(true)
				debug.FreeOSMemory()
			} else if memExceeded.Load() && ms.HeapAlloc < (memLimitGiB/2)<<30 {
				memExceeded.Store(false)
			}
		}
	}()
}
