package main

import (
	"encoding/json"
	"flag"
	"fmt"
	"os"
	"runtime/pprof"
	"sort"
	"strconv"
	"strings"
	"time"
)

func main() {
	if pf := os.Getenv("GOSYM_PROF"); pf != "" {
		f, _ := os.Create(pf)
		pprof.StartCPUProfile(f)
		defer pprof.StopCPUProfile()
	}
	code := realMain()
	pprof.StopCPUProfile()
	os.Exit(code)
}

func realMain() int {
	if len(os.Args) < 2 {
		fmt.Fprintln(os.Stderr, "usage: gosym run|check ...")
		return 2
	}
	switch os.Args[1] {
	case "run":
		return cmdRun(os.Args[2:])
	case "check":
		return cmdCheck(os.Args[2:])
	case "replay":
		// gosym replay <tape.json> : native replay of a tape written by a check
		data, err := os.ReadFile(os.Args[2])
		if err != nil {
			fmt.Fprintln(os.Stderr, err)
			return 2
		}
		var tape replayTape
		if err := json.Unmarshal(data, &tape); err != nil {
			fmt.Fprintln(os.Stderr, err)
			return 2
		}
		o := nativeReplay(replayRepo(), &tape, os.Args[2])
		fmt.Printf("outcome=%s detail=%s\n", o.Outcome, o.Detail)
		if len(os.Args) > 3 {
			fmt.Println(o.Raw)
		}
		return 0
	}
	fmt.Fprintln(os.Stderr, "unknown subcommand", os.Args[1])
	return 2
}

// cmdRun: low-level interface for development.
func cmdRun(args []string) int {
	fs := flag.NewFlagSet("run", flag.ExitOnError)
	repo := fs.String("repo", "/repo", "repository root")
	pkg := fs.String("pkg", "", "package directory relative to repo (e.g. internal/timesafeguard)")
	files := fs.String("files", "", "comma-separated harness files")
	entry := fs.String("entry", "", "harness function")
	pkgName := fs.String("pkgname", "", "package name")
	workers := fs.Int("workers", 8, "workers")
	unwind := fs.Int("unwind", 8, "unwinding bound")
	params := fs.String("params", "", "k=v,k=v")
	witness := fs.Bool("witness", false, "reachability-witness mode")
	permute := fs.Int("permute", 0, "explore map orders for maps up to this many entries")
	solver := fs.String("solver", "z3", "z3|z3-new|cvc5")
	timeout := fs.Int("timeout", 20000, "per-query timeout ms")
	panics := fs.Bool("panics", true, "report panics as violations")
	redirect := fs.String("redirect", "", "callee=harnessFn;...")
	tapes := fs.String("tapes", "", "directory to write a tape per violation label (ircserver dev runs)")
	stubs := fs.String("stubs", "", "callee=kind;callee=kind")
	apis := fs.String("apis", "", "extra api templates (comma separated, e.g. ldb)")
	deadline := fs.Int("deadline", 0, "stop after this many seconds")
	single := fs.String("path", "", "run only the path with this decision vector (comma separated), with tracing")
	fs.Parse(args)

	ov, err := harnessOverlay(*repo, *pkg, *pkgName, strings.Split(*files, ","))
	if err != nil {
		fmt.Fprintln(os.Stderr, "overlay:", err)
		return 2
	}
	for _, a := range strings.Split(*apis, ",") {
		if a == "" {
			continue
		}
		if err := addAPITemplate(ov, *repo, *pkg, *pkgName, a, true); err != nil {
			fmt.Fprintln(os.Stderr, "api:", err)
			return 2
		}
	}
	eng, err := LoadEngine(*repo, "./"+*pkg, ov)
	if err != nil {
		fmt.Fprintln(os.Stderr, "load:", err)
		return 2
	}
	for _, kv := range strings.Split(*redirect, ";") {
		if kv == "" {
			continue
		}
		p := strings.SplitN(kv, "=", 2)
		eng.redirect[p[0]] = p[1]
	}
	opts := RunOpts{Unwind: *unwind, Witness: *witness, Params: map[string]int{}, PanicViolation: *panics}
	if *stubs != "" {
		opts.Stubs = map[string]string{}
		for _, kv := range strings.Split(*stubs, ";") {
			p := strings.SplitN(kv, "=", 2)
			opts.Stubs[p[0]] = p[1]
		}
	}
	if *permute > 0 {
		opts.PermuteMaps = true
		opts.PermuteMax = *permute
	}
	for _, kv := range strings.Split(*params, ",") {
		if kv == "" {
			continue
		}
		p := strings.SplitN(kv, "=", 2)
		v, _ := strconv.Atoi(p[1])
		opts.Params[p[0]] = v
	}
	ex, err := NewExplorer(eng, *entry, opts)
	if err != nil {
		fmt.Fprintln(os.Stderr, err)
		return 2
	}
	ex.workers = *workers
	ex.solver = *solver
	ex.timeout = *timeout
	if *single != "" {
		var dec []int
		for _, f := range strings.Split(*single, ",") {
			v, _ := strconv.Atoi(f)
			dec = append(dec, v)
		}
		ex.RunSingle(dec)
		return 0
	}
	if *deadline > 0 {
		ex.deadline = time.Now().Add(time.Duration(*deadline) * time.Second)
	}
	st := ex.Run()
	if *tapes != "" {
		os.MkdirAll(*tapes, 0o755)
		seen := map[string]bool{}
		for _, v := range st.Violations {
			if seen[v.Label] || v.Draws == nil {
				continue
			}
			seen[v.Label] = true
			var fl []string
			for _, f := range strings.Split(*files, ",") {
				if strings.HasSuffix(f, "api_sym.go") {
					f = strings.Replace(f, "api_sym.go", "api_native.go", 1)
				}
				fl = append(fl, strings.TrimPrefix(f, verifRoot()+"/harness/"))
			}
			tp := &replayTape{Property: "dev", Harness: *entry, Pkg: *pkg, PkgName: *pkgName, Files: fl, Params: opts.Params, Draws: v.Draws, Expect: v.Label, Kind: v.Kind, Msg: v.Msg}
			if *apis != "" {
				tp.APIs = strings.Split(*apis, ",")
			}
			d, _ := json.MarshalIndent(tp, "", " ")
			os.WriteFile(*tapes+"/"+sanitize(v.Label)+".json", d, 0o644)
		}
	}
	printStats(st)
	if len(st.Violations) > 0 {
		return 1
	}
	return 0
}

func printStats(st *Stats) {
	fmt.Printf("paths=%d kinds=%v steps=%d asserts=%d wall=%.1fs\n", st.Paths, st.PathKinds, st.Steps, st.Asserts, st.Wall.Seconds())
	fmt.Printf("queries=%d sat=%d unsat=%d unknown=%d errors=%d solver=%.1fs hist(<5ms,<20ms,<100ms,<1s,>=1s)=%v\n", st.Queries.Queries, st.Queries.Sat, st.Queries.Unsat, st.Queries.Unknown, st.Queries.Errors, st.Queries.Time.Seconds(), st.Queries.Hist)
	keys := func(m map[string]int) []string {
		var ks []string
		for k := range m {
			ks = append(ks, k)
		}
		sort.Strings(ks)
		return ks
	}
	for _, k := range keys(st.Unsupported) {
		fmt.Printf("UNSUPPORTED x%d: %s\n", st.Unsupported[k], k)
	}
	for _, k := range keys(st.Unwind) {
		fmt.Printf("UNWIND x%d: %s\n", st.Unwind[k], k)
	}
	type kv struct {
		k string
		n int
	}
	var cs []kv
	for k, n := range st.CasePaths {
		cs = append(cs, kv{k, n})
	}
	sort.Slice(cs, func(i, j int) bool { return cs[i].n > cs[j].n })
	for i, c := range cs {
		if i >= 12 {
			break
		}
		fmt.Printf("CASE paths=%d %s\n", c.n, c.k)
	}
	if forkStats != nil {
		var fs []kv
		for k, n := range forkStats {
			fs = append(fs, kv{k, n})
		}
		sort.Slice(fs, func(i, j int) bool { return fs[i].n > fs[j].n })
		for i, c := range fs {
			if i >= 40 {
				break
			}
			fmt.Printf("FORK x%d %s\n", c.n, c.k)
		}
	}
	var notes []string
	for n := range st.Notes {
		notes = append(notes, n)
	}
	sort.Strings(notes)
	fmt.Println("notes:", notes)
	for i, v := range st.Violations {
		if i >= 40 {
			fmt.Printf("... %d more\n", len(st.Violations)-40)
			break
		}
		d, _ := json.Marshal(v.Draws)
		if len(d) > 400 {
			d = d[:400]
		}
		fmt.Printf("VIOLATION-CANDIDATE kind=%s label=%s msg=%q path=%v draws=%s\n", v.Kind, v.Label, v.Msg, v.Decision, d)
	}
}

// replayRepo: repository the `replay` subcommand builds against (GOSYM_REPO, default /repo).
func replayRepo() string {
	if r := os.Getenv("GOSYM_REPO"); r != "" {
		return r
	}
	return "/repo"
}
