package main

import "fmt"

func init() {
	registerCheck(&CheckDef{
		ID: "C19",
		Runs: func(tier string) []HarnessRun {
			peers := 2
			if tier == "thorough" {
				peers = 3
			}
			return []HarnessRun{{Name: "timesafeguard", Pkg: "internal/timesafeguard", PkgName: "timesafeguard",
				Files: []string{"timesafeguard/c19.go"}, Entry: "verifHarness_C19", Params: map[string]int{"peers": peers}, Unwind: 8}}
		},
		Assumptions: []string{
			"time.Time modelled abstractly (DESIGN §3.6): time.Unix(0,n) is the instant n; Sub is exact with saturation; IsZero only for time.Time{}",
			"one local clock: Start and End of a measurement are read from the same monotone clock",
			"log.Printf and the %v renderings of times/durations are uninterpreted (output formatting is not the subject)",
		},
		Bounds: func(tier string) map[string]interface{} {
			peers := 2
			if tier == "thorough" {
				peers = 3
			}
			return map[string]interface{}{"peers": peers, "local_clock_ns": "±2^61", "true_offset_ns": "±2^60", "one_way_delay_ns": "[0,2^59]", "loop_unwind": 8}
		},
		Outside:   []string{"more peers than the bound", "getServerTime/collectTime networking and goroutines", "call sites in main()", "wall-clock step between Start and End"},
		Functions: []string{"timesafeguard.timeResult.worstCaseDrift", "timesafeguard.timeInSync", "timesafeguard.synchronizedWithNetwork", "timesafeguard.(*timeResult).String"},
		Rule:      "one case per number of peers and per feasible path through synchronizedWithNetwork; a case is non-trivial when a feasible path reaches at least one assertion",
	})

	registerCheck(&CheckDef{
		ID: "C09",
		Runs: func(tier string) []HarnessRun {
			p := map[string]int{"entries": 2, "stable": 1}
			if tier == "thorough" {
				p = map[string]int{"entries": 2, "stable": 1} // 3 entries leave solver timeouts in the LastIndex obligation (20 s per query): not registered; the thorough tier adds the solver diff only
			}
			return []HarnessRun{{Name: "leveldbstore", Pkg: "internal/raftstore", PkgName: "raftstore",
				Files: []string{"raftstore/c09.go"}, APIs: []string{"ldb"}, Entry: "verifHarness_C09", Params: p, Unwind: 8}}
		},
		Assumptions: []string{
			"goleveldb is an ordered key/value store with atomic batches (engine model, DESIGN §5.1); durability across close/reopen and corruption recovery are trusted, not modelled",
			"protobuf and JSON libraries round-trip a message struct (abstract codec: Marshal yields an opaque blob bound to a deep copy of the message)",
			"log indexes below 0x7300000000000000 (log keys sort before the stable-store prefix) and DeleteRange max < 2^64-1: inputs no caller passes",
			"GetUint64 is only applied to keys written by SetUint64",
		},
		Bounds: func(tier string) map[string]interface{} {
			if tier == "thorough" {
				return map[string]interface{}{"log_entries_in_store": 2, "stable_keys_in_store": 1, "payload_bytes": 2, "operations": "one per obligation (refinement step from an arbitrary corresponding state)"}
			}
			return map[string]interface{}{"log_entries_in_store": 2, "stable_keys_in_store": 1, "payload_bytes": 2, "operations": "one per obligation (refinement step from an arbitrary corresponding state)"}
		},
		Outside:   []string{"close/reopen, kill/reopen, corruption recovery (LevelDB durability)", "JSON and protobuf byte formats", "ConvertToProto of command entries (needs the robust.Message decoders, see C18); batches of more than 100 entries"},
		Functions: []string{"raftstore.(*LevelDBStore).FirstIndex", "LastIndex", "GetLog", "StoreLog", "StoreLogs", "StoreLogProto", "DeleteRange", "GetBulkIterator", "Set", "Get", "SetUint64", "GetUint64", "ConvertToProto (non-command entries of a JSON database)"},
		Rule:      "one case per store operation and encoding; a case is non-trivial when a feasible path reaches the probing assertions",
	})
	registerCheck(&CheckDef{
		ID: "C18",
		Runs: func(tier string) []HarnessRun {
			p := map[string]int{"msgs": 2, "data": 3, "rcpt": 2}
			if tier == "thorough" {
				p = map[string]int{"msgs": 3, "data": 4, "rcpt": 3}
			}
			return []HarnessRun{
				{Name: "outputbatch", Pkg: "internal/outputstream", PkgName: "outputstream", Files: []string{"outputstream/c18.go"}, Entry: "verifHarness_C18_batch", Params: p, Unwind: 12},
				{Name: "message", Pkg: "internal/robust", PkgName: "robust", Files: []string{"robust/c18.go"}, Entry: "verifHarness_C18_message", Unwind: 8},
				{Name: "raftlog", Pkg: "internal/raftlog", PkgName: "raftlog", Files: []string{"raftlog/c18.go"}, Entry: "verifHarness_C18_raftlog", Unwind: 8},
			}
		},
		Assumptions: []string{"recipient values are true (the only value the server stores)", "protobuf and JSON libraries are an abstract codec for the message and raft-log halves: what is decided there is the hand-written field copying (ProtoMessage, CopyToProtoMessage into a reused destination, NewMessageFromBytes, raftlog.FromBytes)"},
		Bounds: func(tier string) map[string]interface{} {
			if tier == "thorough" {
				return map[string]interface{}{"messages": 3, "data_bytes": 4, "recipients": 3}
			}
			return map[string]interface{}{"messages": 2, "data_bytes": 3, "recipients": 2}
		},
		Outside:   []string{"protobuf and JSON wire formats (reflection-driven libraries)", "longer payloads / more messages than the bound"},
		Functions: []string{"outputstream.(*messageBatch).marshal", "outputstream.unmarshalMessageBatch", "encoding/binary.littleEndian.PutUint64", "encoding/binary.littleEndian.Uint64", "robust.(*Message).ProtoMessage", "robust.(*Message).CopyToProtoMessage", "robust.NewMessageFromBytes", "raftlog.FromBytes"},
		Rule:      "one case per (message count, recipient counts, payload lengths); non-trivial when the round-trip assertions are reached",
	})

	registerCheck(&CheckDef{
		ID: "C08",
		Runs: func(tier string) []HarnessRun {
			p := map[string]int{"initial": 2, "env": 2}
			if tier == "thorough" {
				p = map[string]int{"initial": 2, "env": 3} // 3+3 runs 15 minutes and leaves a few solver timeouts (not registered)
			}
			stubs := map[string]string{
				"(*" + repoMod + "/internal/outputstream.messageBatch).marshal":   "codec.marshal",
				repoMod + "/internal/outputstream.unmarshalMessageBatch":          "codec.unmarshal",
			}
			return []HarnessRun{
				{Name: "getnext", Pkg: "internal/outputstream", PkgName: "outputstream", Files: []string{"outputstream/c08.go"},
					SymFiles: []string{"outputstream/c08_sym.go"}, NatFiles: []string{"outputstream/c08_native.go"}, APIs: []string{"ldb"},
					Entry: "verifHarness_C08_getnext", Params: p, Unwind: 8, Panics: true, Stubs: stubs},
				// a longer environment program on a smaller store (add, add, delete while the reader is parked)
				{Name: "getnext-env3", Pkg: "internal/outputstream", PkgName: "outputstream", Files: []string{"outputstream/c08.go"},
					SymFiles: []string{"outputstream/c08_sym.go"}, NatFiles: []string{"outputstream/c08_native.go"}, APIs: []string{"ldb"},
					Entry: "verifHarness_C08_getnext", Params: map[string]int{"initial": 1, "env": 3}, Unwind: 8, Panics: true, Stubs: stubs},
				{Name: "get", Pkg: "internal/outputstream", PkgName: "outputstream", Files: []string{"outputstream/c08.go"},
					SymFiles: []string{"outputstream/c08_sym.go"}, NatFiles: []string{"outputstream/c08_native.go"}, APIs: []string{"ldb"},
					Entry: "verifHarness_C08_get", Params: p, Unwind: 8, Panics: true, Stubs: stubs},
				{Name: "delete", Pkg: "internal/outputstream", PkgName: "outputstream", Files: []string{"outputstream/c08.go"},
					SymFiles: []string{"outputstream/c08_sym.go"}, NatFiles: []string{"outputstream/c08_native.go"}, APIs: []string{"ldb"},
					Entry: "verifHarness_C08_delete", Params: p, Unwind: 8, Panics: true, Stubs: stubs, NoReplay: true},
			}
		},
		Assumptions: []string{
			"goleveldb is an ordered key/value store with atomic batches (engine model, DESIGN §5.1)",
			"the output batch codec round-trips (abstract codec here; decided at byte level by C18)",
			"GetNext gives up the stream lock only between RUnlock and Lock and inside Cond.Wait; Add/Delete/InterruptGetNext hold the write lock for their whole body (lock table checked by the engine), so they are atomic environment steps",
			"batches are added in increasing id order and compaction deletes oldest-first; the queried position is not newer than the newest id ever added (newer positions are C04's concern)",
			"sync.Cond: Wait returns only after a Broadcast; fairness is not modelled",
		},
		Bounds: func(tier string) map[string]interface{} {
			if tier == "thorough" {
				return map[string]interface{}{"initial_batches": 2, "environment_operations_per_call": 3, "readers": 1}
			}
			return map[string]interface{}{"initial_batches": "2 (and 1 with 3 environment operations)", "environment_operations_per_call": 2, "readers": 1}
		},
		Outside:   []string{"more environment operations per call than the bound", "several concurrent readers (they interact only through the cache)", "cache eviction (>1000 entries)", "LevelDB internals"},
		Functions: []string{"outputstream.(*OutputStream).GetNext", "Get", "Add", "Delete", "InterruptGetNext", "getUnlocked"},
		Rule:      "one case per (initial batches, compacted prefix, environment program, yield point placement); non-trivial when the reader returns or parks and the oracle is evaluated",
	})

	registerCheck(&CheckDef{
		ID: "C07",
		Runs: func(tier string) []HarnessRun {
			tp := map[string]int{"S": 2, "C": 1, "L": 4}
			if tier == "thorough" {
				tp = map[string]int{"S": 3, "C": 2, "L": 6, "link": 1, "P": 1}
			}
			return []HarnessRun{
				{Name: "mark", Pkg: "", PkgName: "main", Files: []string{"main/c07.go"}, SymFiles: []string{"main/tmp_sym.go"}, NatFiles: []string{"main/tmp_native.go"},
					Entry: "verifHarness_C07_mark", Unwind: 8,
					Redirect:      map[string]string{"(*" + repoMod + ".FSM).applyRobustMessage": "verifStub_applyRobustMessage"},
					NativePatches: markNativePatches},
				{Name: "replay", Pkg: "internal/ircserver", PkgName: "ircserver", Files: ircFiles, SymFiles: ircSym, NatFiles: ircNat,
					Entry: "verifHarness_C07_replay", Params: tp, Unwind: 8, Solver: "z3-new"},
				{Name: "apply-log-copy", Pkg: "", PkgName: "main", Files: []string{"main/c07.go"}, SymFiles: []string{"main/tmp_sym.go"}, NatFiles: []string{"main/tmp_native.go"},
					Entry: "verifHarness_C07_apply", Unwind: 8,
					Redirect:      map[string]string{"(*" + repoMod + ".FSM).applyRobustMessage": "verifStub_applyRobustMessage"},
					NativePatches: markNativePatches},
				{Name: "replay-real-step", Pkg: "", PkgName: "main", Files: []string{"main/c07.go"}, SymFiles: []string{"main/tmp_sym.go"}, NatFiles: []string{"main/tmp_native.go"},
					Entry: "verifHarness_C07_modreplay", Unwind: 8},
				{Name: "snapshot", Pkg: "", PkgName: "main", Files: []string{"main/c02.go", "main/c07.go", "main/c16.go"}, SymFiles: []string{"main/tmp_sym.go"}, NatFiles: []string{"main/tmp_native.go"},
					Entry: "verifHarness_C07_snapshot", Params: map[string]int{"entries": 2}, Unwind: 10, NoReplay: true,
					Redirect: map[string]string{
						"(*" + repoMod + "/internal/ircserver.IRCServer).Unmarshal":    "verifStub_Unmarshal",
						"(*" + repoMod + "/internal/ircserver.IRCServer).Marshal":      "verifStub_Marshal",
						"(*" + repoMod + ".FSM).applyRobustMessage":                    "verifStub_foldEntry",
						"(*" + repoMod + "/internal/outputstream.OutputStream).Delete": "verifStub_outDelete",
					}},
			}
		},
		Assumptions: []string{
			"the state machine step is replaced by a stub that may panic for every entry type except MessageOfDeath (that branch is covered by the replay run)",
			"raftstore over the LevelDB model; protobuf/JSON as abstract codec",
			"glog.Fatalf terminates the process (observed as an exit event); real process exit, restart and raft's replay of the durable log are outside",
		},
		Bounds:    func(tier string) map[string]interface{} { return map[string]interface{}{"entries": 1, "template": "see C14"} },
		Outside:   []string{"process restart and replay from the durable log by hashicorp/raft", "interplay with real snapshots (see C02)"},
		Functions: []string{"main.(*FSM).applyProto", "raftstore.(*LevelDBStore).StoreLogProto", "robust.(*Message).ProtoMessage", "robust.NewMessageFromBytes", "ircserver.(*IRCServer).UpdateLastClientMessageID", "main.(*FSM).applyRobustMessage (MessageOfDeath case, with and without output stream)"},
		Rule:      "cases: (panic?, encoding) for the marking half; one case for the replay half; non-trivial when the exit observer or the final assertions are reached",
	})
}

func ircRun(name, entry string, params map[string]int) HarnessRun {
	return HarnessRun{Name: name, Pkg: "internal/ircserver", PkgName: "ircserver", Files: ircFiles, SymFiles: ircSym, NatFiles: ircNat,
		Entry: entry, Params: params, Unwind: 10, Solver: "z3-new"}
}

func mergeParams(a map[string]int, kv ...interface{}) map[string]int {
	out := map[string]int{}
	for k, v := range a {
		out[k] = v
	}
	for i := 0; i+1 < len(kv); i += 2 {
		out[kv[i].(string)] = kv[i+1].(int)
	}
	return out
}

func init() {
	registerCheck(&CheckDef{
		ID: "C03",
		Runs: func(tier string) []HarnessRun {
			base := map[string]int{"S": 2, "C": 1, "L": 4, "secretnil": 1, "cfgmaps": 1, "bans": 2}
			if tier == "thorough" {
				// larger templates (two channels, strings of 5 bytes, a services link with a pseudo-client) did not
				// finish within 25-40 minutes each: the thorough tier of this check is the quick bound
				base = map[string]int{"S": 2, "C": 1, "L": 4, "secretnil": 1, "cfgmaps": 1, "bans": 2}
			}
			var runs []HarnessRun
			for _, g := range []int{0, 1, 2, 4, 8, 16, 32, 64} {
				runs = append(runs, ircRun(fmt.Sprintf("group%d", g), "verifHarness_C03_roundtrip", mergeParams(base, "sym", g)))
			}
			return runs
		},
		Assumptions: []string{
			"golang/protobuf round-trips a message struct (abstract codec: proto.Marshal yields an opaque blob bound to a deep copy of pb.Snapshot)",
			"time.Duration.String/time.ParseDuration and hex.EncodeToString/DecodeString are inverse pairs; regexp.Compile(re.String()) succeeds for a compiled regexp",
			"template invariant (DESIGN §4): creation instants positive, timestamps with nanosecond resolution (second-resolution topic times from services TOPIC are not generated)",
			"strings ASCII (case mapping) and free of CR/LF/NUL",
		},
		Bounds: func(tier string) map[string]interface{} {
			if tier == "thorough" {
				return map[string]interface{}{"sessions": 3, "services_link_and_pseudo_clients": "1+1", "channels": 2, "string_bytes": 5, "bans_per_channel": 2, "shape_groups": "one optional-element group symbolic at a time (user modes, channel modes, membership/status bits, invitations, optional config maps, registration status, optional timestamps) against a fixed shape of the others; all scalar and string fields symbolic in every run"}
			}
			return map[string]interface{}{"sessions": 2, "channels": 1, "string_bytes": 4, "bans_per_channel": 1, "shape_groups": "one optional-element group symbolic at a time against a fixed shape of the others; all scalar and string fields symbolic in every run"}
		},
		Outside:   []string{"protobuf wire encoding", "the full product of all optional-element shapes", "observational equivalence for continuations is inferred from state equality plus C01"},
		Functions: []string{"ircserver.(*IRCServer).Marshal", "ircserver.(*IRCServer).Unmarshal", "ircserver.timeToTimestamp", "ircserver.timestampToTime", "config.Duration.String", "config.HexString.String"},
		Rule:      "one case per shape group and feasible path through Marshal/Unmarshal; non-trivial when the field-by-field comparison is reached",
	})
}

// native stand-ins for the mark harness: glog.Fatalf becomes an observable panic and the
// state machine step is the harness stub, as in the symbolic run
var markNativePatches = []NativePatch{
	{Module: "github.com/stapelberg/glog", File: "glog.go", Old: "os.Exit(255)", New: "panic(\"verif-process-exit\")"},
	{Module: "", File: "statemachine.go", Old: "fsm.applyRobustMessage(msg, ircServer, outputStream)", New: "verifStub_applyRobustMessage(fsm, msg, ircServer, outputStream)"},
}

func apiRedirects() map[string]string {
	r := repoMod + "/internal/api"
	m := map[string]string{
		"(*" + r + ".HTTP).handlePostMessage":   "verifStub_postMessage",
		"(*" + r + ".HTTP).handleDeleteSession": "verifStub_deleteSession",
		"(*" + r + ".HTTP).handleCreateSession": "verifStub_createSession",
		"(*" + r + ".HTTP).partitioned":         "verifStub_partitioned",
		"(*" + r + ".HTTP).maybeProxyToLeader":  "verifStub_proxy",
		"(*github.com/hashicorp/raft.Raft).State": "verifStub_raftState",
		"time.Sleep": "verifStub_sleep",
	}
	for _, h := range []string{"handleStatus", "handleStatusGetMessage", "handleStatusSessions", "handleStatusIrclog", "handleStatusState", "handleIrclog", "handleSnapshot", "handleLeader", "handleGetConfig", "handleJoin", "handlePart", "handleQuit", "handlePostConfig", "handleKill"} {
		m["(*"+r+".HTTP)."+h] = "verifStub_private"
	}
	return m
}

func init() {
	registerCheck(&CheckDef{
		ID: "C11",
		Runs: func(tier string) []HarnessRun {
			p := map[string]int{"rest": 13, "authlen": 3}
			if tier == "thorough" {
				p = map[string]int{"rest": 16, "authlen": 5}
			}
			mk := func(name, entry string) HarnessRun {
				return HarnessRun{Name: name, Pkg: "internal/api", PkgName: "api", Files: []string{"apipkg/common.go", "apipkg/c11.go"}, APIs: []string{"http"},
					Entry: entry, Params: p, Unwind: 10, Redirect: apiRedirects(), NoReplay: true}
			}
			return []HarnessRun{mk("public", "verifHarness_C11_public"), mk("private", "verifHarness_C11_private")}
		},
		Assumptions: []string{
			"net/http modelled: headers are maps with canonical keys, the response writer is a recording fake, BasicAuth returns the triple the harness attached to the request",
			"DispatchPublic is only mounted under /robustirc/v1/ (the path prefix is a precondition)",
			"handlers behind the authentication layer are recording stubs; the session check inside handleGetMessages is observed through a stub of partitioned()",
			"strconv.ParseUint is an uninterpreted function of the path segment",
		},
		Bounds: func(tier string) map[string]interface{} {
			return map[string]interface{}{"sessions": 2, "path_rest_bytes": p4(tier, 13, 16), "secret_bytes": p4(tier, 3, 5), "requests": 1}
		},
		Outside:   []string{"wiring in main() (http.HandleFunc)", "TLS", "rafthttp transport", "timing side channels of the comparison", "native replay (library method fakes cannot be injected natively): counterexamples are solver models"},
		Functions: []string{"api.(*HTTP).session", "sessionOrProxy", "DispatchPublic", "DispatchPrivate", "DispatchPrivateWithoutAuth", "handleGetMessages (prefix up to the session check)", "ircserver.(*IRCServer).GetAuth"},
		Rule:      "one case per method (and private path); non-trivial when the dispatcher returns and the oracle is evaluated",
	})
}

// ircStepRuns: the one-step exploration of the IRC state machine for all
// roles (unregistered, client, operator, services link) and all commands.
// indexes into the harness table vNamedCmds (harness/ircserver/step.go)
const (
	cmdMODE = 1 + iota
	cmdNICK
	cmdPING
	cmdJOIN
	cmdQUIT
	cmdKILL
	cmdPART
	cmdPRIVMSG
)

func ircStepRuns(entry, tier string, panics bool, extra ...interface{}) []HarnessRun {
	base := map[string]int{"S": 2, "C": 1, "L": 4, "K": 3, "P": 1, "modelen": 2, "commas": 1}
	if tier == "thorough" {
		// measured: strings of 5 bytes or mode strings of 3 multiply the run time of one role beyond 20 minutes;
		// the thorough tier therefore keeps the quick template, gives every role the full string bound and adds a second ban
		base = map[string]int{"S": 2, "C": 1, "L": 4, "K": 3, "P": 1, "modelen": 2, "commas": 1, "bans": 2, "secretnil": 1}
	}
	base = mergeParams(base, extra...)
	// per-role string bounds of the quick tier ("L.client", "L.oper"): the operator role repeats most
	// of the client role's paths, so it runs with strings one byte shorter
	roleL := map[string]int{}
	if tier != "thorough" {
		roleL["oper"] = 3
	}
	for _, n := range []string{"client", "oper"} {
		if v, ok := base["L."+n]; ok {
			roleL[n] = v
			delete(base, "L."+n)
		}
	}
	var runs []HarnessRun
	names := []string{"unregistered", "client", "oper", "services"}
	for r, n := range names {
		p := mergeParams(base, "role", r)
		if v, ok := roleL[n]; ok && v < p["L"] {
			p["L"] = v
		}
		run := ircRun(n, entry, p)
		run.Panics = panics
		runs = append(runs, run)
	}
	// services NICK introduces a pseudo-client with at least four parameters
	nick := ircRun("services-nick", entry, mergeParams(base, "role", 3, "cmdname", cmdNICK, "K", 4))
	nick.Panics = panics
	runs = append(runs, nick)
	// the remote address of the message differs from the stored one (ban check on address change)
	addr := ircRun("address-change", entry, mergeParams(base, "role", 1, "cmdname", cmdPING, "addr", 1))
	addr.Panics = panics
	runs = append(runs, addr)
	// compound mode strings ("+b" query followed by one more change) are longer than the general bound on mode strings
	mode := ircRun("client-mode-compound", entry, mergeParams(base, "role", 1, "cmdname", cmdMODE, "K", 2, "modelen", 4, "modeprefix", 1))
	mode.Panics = panics
	runs = append(runs, mode)
	// a text longer than one IRC line (the 510-byte cut)
	long := ircRun("client-privmsg-long", entry, mergeParams(base, "role", 1, "cmdname", cmdPRIVMSG, "K", 2, "longtext", 505))
	long.Panics = panics
	runs = append(runs, long)
	return runs
}

var ircAssumptions = []string{
	"pre-state: the symbolic template of DESIGN §4 under the representation invariant (inductive step; C14 shows the invariant is preserved)",
	"input: an irc.Message with command from the current Commands table (plus one unknown command), 0..K parameters, each an arbitrary ASCII string without CR/LF/NUL of at most L bytes; this over-approximates irc.ParseMessage's output for lines the API accepts",
	"services lines are protocol-conforming: prefix present where the handler reads it, parameter counts as in the documented example lines",
	"library code is uninterpreted where it only feeds formatted output (fmt %d/%v, time formatting, hmac, base64, url); regexp.Compile/MatchString on ban patterns are uninterpreted, validNickRe/validChannelRe are unrolled exactly",
	"irc.Message.Bytes and irc.Prefix.String are exact branch-free summaries of the library functions",
	"strings ASCII (case mapping); comma lists with at most 2 items; mode strings bounded; strings.Split inputs with at most 3 separators",
}

func ircBounds(tier string) map[string]interface{} {
	if tier == "thorough" {
		return map[string]interface{}{"client_sessions": 2, "services_link": "1 + 1 pseudo-client (services role; 2 for QUIT/KILL of the link in C01)", "channels": 1, "string_bytes": "4 in every role", "params": 3, "mode_string_bytes": 2, "bans_per_channel": 2, "map_iteration_order": "canonical (order independence is C01's obligation)"}
	}
	return map[string]interface{}{"client_sessions": 2, "services_link": "1 + 1 pseudo-client (services role)", "channels": 1, "string_bytes": "4 (operator role 3; C15: client role 3; C01: 3)", "dedicated_runs": "compound mode string '+b'+2 bytes; text of 509 bytes (2+505+2); services NICK with 4 parameters; changed remote address", "params": 3, "mode_string_bytes": 2, "bans_per_channel": 1, "map_iteration_order": "canonical (order independence is C01's obligation)"}
}

var ircOutside = []string{"larger templates, longer strings, more parameters than the bound", "non-ASCII case mapping", "the product of several map iteration orders (C01)", "TOML/protobuf/JSON library internals"}

var ircFunctions = []string{"ircserver.(*IRCServer).ProcessMessage", "UpdateLastClientMessageID", "SetLastProcessed", "MaybeDeleteSession", "every cmd*/cmdServer* handler reachable from the Commands table", "send*", "maybeLogin", "verifyCaptcha", "irc.ParseMessage (where handlers call it)"}

func apiPostRedirects() map[string]string {
	r := repoMod + "/internal/api"
	return map[string]string{
		"(*" + r + ".HTTP).applyMessageWait":      "verifStub_applyMessageWait",
		"(*" + r + ".HTTP).maybeProxyToLeader":    "verifStub_proxy",
		"(*github.com/hashicorp/raft.Raft).State": "verifStub_raftState",
		"time.Sleep": "verifStub_sleep",
	}
}

func apiRun(name, entry string, params map[string]int) HarnessRun {
	return HarnessRun{Name: name, Pkg: "internal/api", PkgName: "api", Files: []string{"apipkg/common.go", "apipkg/c11.go", "apipkg/post.go"}, APIs: []string{"http"},
		Entry: entry, Params: params, Unwind: 10, Redirect: apiPostRedirects(), NoReplay: true}
}

func init() {
	registerCheck(&CheckDef{
		ID: "C06",
		Runs: func(tier string) []HarnessRun { return ircStepRuns("verifHarness_C06_step", tier, true, "secretnil", 1) },
		Assumptions: ircAssumptions, Bounds: ircBounds, Outside: ircOutside, Functions: ircFunctions,
		Rule: "one case per (role, command, parameter count); non-trivial when at least one feasible path runs the step to completion",
	})
	registerCheck(&CheckDef{
		ID: "C14",
		Runs: func(tier string) []HarnessRun { return ircStepRuns("verifHarness_C14_step", tier, false) },
		Assumptions: ircAssumptions,
		Bounds: ircBounds, Outside: ircOutside, Functions: ircFunctions,
		Rule: "one case per (role, command, parameter count); non-trivial when the invariant obligations are reached",
	})
	registerCheck(&CheckDef{
		ID: "C12",
		Runs: func(tier string) []HarnessRun {
			runs := ircStepRuns("verifHarness_C12_step", tier, false)
			{
				// recipients of services JOIN/PART need two channels to differ
				base := map[string]int{"S": 2, "C": 2, "L": 3, "K": 2, "P": 1, "role": 3}
				runs = append(runs, ircRun("services-join-2chan", "verifHarness_C12_step", mergeParams(base, "cmdname", cmdJOIN)))
				runs = append(runs, ircRun("services-part-2chan", "verifHarness_C12_step", mergeParams(base, "cmdname", cmdPART)))
				// a session that quits while it is the only member of one channel and shares another
				runs = append(runs, ircRun("client-quit-2chan", "verifHarness_C12_step", mergeParams(base, "role", 1, "cmdname", cmdQUIT, "K", 1)))
			}
			return runs
		},
		Assumptions: ircAssumptions, Bounds: ircBounds, Outside: append(append([]string{}, ircOutside...), "the HTTP-side filter expression (C04)"), Functions: ircFunctions,
		Rule: "one case per (role, command, parameter count); non-trivial when at least one outgoing line is checked",
	})
	registerCheck(&CheckDef{
		ID: "C13",
		Runs: func(tier string) []HarnessRun { return ircStepRuns("verifHarness_C13_step", tier, false) },
		Assumptions: append(append([]string{}, ircAssumptions...), "captcha: HMAC/base64 uninterpreted; the check is that no admitted join bypasses ban/invite/key tests, not cryptographic strength"),
		Bounds: ircBounds, Outside: ircOutside, Functions: ircFunctions,
		Rule: "one case per (role, command, parameter count); non-trivial when the frame conditions are evaluated on a completed step",
	})
	registerCheck(&CheckDef{
		ID: "C15",
		Runs: func(tier string) []HarnessRun {
			runs := ircStepRuns("verifHarness_C15_step", tier, false, "L.client", p4(tier, 3, 4))
			p := map[string]int{"data": p4(tier, 6, 10), "authlen": 3}
			runs = append(runs, apiRun("post-sanitiser", "verifHarness_C15_post", p), apiRun("delete-sanitiser", "verifHarness_C15_delete", p))
			// a body longer than one IRC line (512 bytes): the cut may not depend on where the separator sits
			long := map[string]int{"data": p4(tier, 3, 5), "filler": p4(tier, 510, 2040), "authlen": 3}
			runs = append(runs, apiRun("post-sanitiser-long", "verifHarness_C15_post", long), apiRun("delete-sanitiser-long", "verifHarness_C15_delete", long))
			return runs
		},
		Assumptions: append(append([]string{}, ircAssumptions...), "JSON decoding yields an arbitrary string for Data/Quitmessage (any bytes, bounded length)", "irc.ParseMessage introduces no byte that is not in its input"),
		Bounds: ircBounds, Outside: append(append([]string{}, ircOutside...), "lines longer than the bound (the 510 truncation is covered by the summary of Message.Bytes)"), Functions: append(append([]string{}, ircFunctions...), "api.(*HTTP).handlePostMessage", "api.(*HTTP).handleDeleteSession"),
		Rule: "one case per (role, command, parameter count) plus the two sanitiser harnesses; non-trivial when at least one produced line is checked",
	})
	registerCheck(&CheckDef{
		ID: "C10",
		Runs: func(tier string) []HarnessRun {
			runs := ircStepRuns("verifHarness_C10_step", tier, false)
			runs = append(runs, apiRun("post-retry", "verifHarness_C10_post", map[string]int{"data": 4, "authlen": 3}))
			runs = append(runs, HarnessRun{Name: "marked", Pkg: "", PkgName: "main", Files: []string{"main/c07.go"}, SymFiles: []string{"main/tmp_sym.go"}, NatFiles: []string{"main/tmp_native.go"},
				Entry: "verifHarness_C10_marked", Unwind: 8,
				Redirect:      map[string]string{"(*" + repoMod + ".FSM).applyRobustMessage": "verifStub_applyRobustMessage"},
				NativePatches: markNativePatches})
			return runs
		},
		Assumptions: append(append([]string{}, ircAssumptions...), "raft is replaced by a recording stub: a proposal is observed, not committed", "persistence of the marker across snapshot/restore is C03's sessions obligation; the MessageOfDeath case is C07's replay half"),
		Bounds: ircBounds, Outside: append(append([]string{}, ircOutside...), "retries racing with the first copy (excluded by the property)", "the bridge"), Functions: append(append([]string{}, ircFunctions...), "api.(*HTTP).handlePostMessage", "ircserver.(*IRCServer).LastPostMessage"),
		Rule: "one case per (role, command, parameter count) plus the retry cases of the POST handler",
	})
	registerCheck(&CheckDef{
		ID: "C17",
		Runs: func(tier string) []HarnessRun {
			runs := ircStepRuns("verifHarness_C17_step", tier, false)
			runs = append(runs, ircRun("lookup", "verifHarness_C17_lookup", map[string]int{"S": 2, "C": 1, "L": 3}), func() HarnessRun {
				r := ircRun("expiry", "verifHarness_C17_expire", map[string]int{"S": p4(tier, 2, 3), "C": 1, "L": 3, "link": 1, "P": 1})
				r.NativeClock = true
				return r
			}())
			runs = append(runs, HarnessRun{Name: "api-mapping", Pkg: "internal/api", PkgName: "api", Files: []string{"apipkg/common.go", "apipkg/c11.go"}, APIs: []string{"http"},
				Entry: "verifHarness_C17_api", Params: map[string]int{"authlen": 3}, Unwind: 10, Redirect: apiRedirects(), NoReplay: true})
			return runs
		},
		Assumptions: append(append([]string{}, ircAssumptions...), "every session id is at most the id of the newest applied entry (ids are raft indexes)", "time.Now is an arbitrary instant for the expiry sweep"),
		Bounds: ircBounds, Outside: append(append([]string{}, ircOutside...), "the leader-only timer loop in main()"), Functions: append(append([]string{}, ircFunctions...), "ircserver.(*IRCServer).GetSession", "getSessionLocked", "ExpireSessions"),
		Rule: "one case per (role, command, parameter count) plus lookup and expiry harnesses",
	})
	registerCheck(&CheckDef{
		ID: "C16",
		Runs: func(tier string) []HarnessRun {
			return []HarnessRun{
				apiRun("post-config", "verifHarness_C16_post", map[string]int{"authlen": 3}),
				{Name: "apply-config", Pkg: "", PkgName: "main", Files: []string{"main/c16.go", "main/c07.go"}, SymFiles: []string{"main/tmp_sym.go"}, NatFiles: []string{"main/tmp_native.go"},
					Entry: "verifHarness_C16_apply", Unwind: 8, Redirect: map[string]string{"github.com/BurntSushi/toml.Decode": "verifStub_tomlDecode"}, NoReplay: true},
			}
		},
		Assumptions: []string{"the TOML decoder is a function of its input (stub returning an arbitrary configuration or an error)", "raft replaced by a recording stub", "serialization of the configuration is C03's obligation (incl. the WhitelistedOrigins finding); GLINE's write to Config.Banned is checked by C13"},
		Bounds:      func(tier string) map[string]interface{} { return map[string]interface{}{"requests": 1, "entries": 1} },
		Outside:     []string{"TOML semantics", "concurrent posts", "GET /config encoding"},
		Functions:   []string{"api.(*HTTP).handlePostConfig", "api.(*HTTP).applyConfig", "main.(*FSM).applyRobustMessage (Config case)"},
		Rule:        "cases: parsable / unparsable body; matching / stale revision; leader / follower",
	})
}

func init() {
	registerCheck(&CheckDef{
		ID: "C04",
		Runs: func(tier string) []HarnessRun {
			os := repoMod + "/internal/outputstream"
			osRedir := map[string]string{"(*" + os + ".OutputStream).Get": "verifStub_osGet", "(*" + os + ".OutputStream).GetNext": "verifStub_osGetNext", "time.Sleep": "verifStub_sleepLag"}
			hRedir := map[string]string{"(*" + os + ".OutputStream).InterruptGetNext": "verifStub_osInterrupt", "(*" + repoMod + "/internal/api.HTTP).partitioned": "verifStub_notPartitioned"}
			for k, v := range osRedir {
				hRedir[k] = v
			}
			params := map[string]int{"batches": p4(tier, 3, 4), "replies": p4(tier, 2, 3), "authlen": 3}
			return []HarnessRun{
				{Name: "resume", Pkg: "internal/api", PkgName: "api", Files: []string{"apipkg/common.go", "apipkg/c04common.go", "apipkg/c04.go"}, APIs: []string{"http"},
					Entry: "verifHarness_C04_resume", Params: params, Unwind: 12, NoReplay: true, Redirect: osRedir},
				{Name: "handler", Pkg: "internal/api", PkgName: "api", Files: []string{"apipkg/common.go", "apipkg/c04common.go", "apipkg/c04h.go"}, APIs: []string{"http"},
					Entry: "verifHarness_C04_handler", Params: mergeParams(params, "batches", p4(tier, 2, 3), "replies", 2), Unwind: 14, NoReplay: true, Redirect: hRedir},
			}
		},
		Assumptions: []string{
			"OutputStream.Get/GetNext are replaced by their specification (assume-guarantee with C08): Get finds an applied batch by id; GetNext returns the applied batch with the smallest larger id, else blocks until the node applies another batch and returns that one, else (nothing more in the scenario) the context is cancelled",
			"the node's applied prefix may be shorter than what the client has seen and may grow at every GetNext call and during the 250 ms back-off",
			"one connection per query; successive connections compose because each starts from a truly seen lastseen",
		},
		Bounds:    func(tier string) map[string]interface{} { return map[string]interface{}{"batches": p4(tier, 3, 4), "replies_per_batch": p4(tier, 2, 3), "loop_unwind": 12} },
		Outside:   []string{"HTTP/JSON framing", "ping goroutine", "supersede logic", "resume points older than the compaction horizon", "native replay (methods of OutputStream cannot be redirected natively): counterexamples are solver models; both known defects were reproduced natively against the real OutputStream at design time (§11)"},
		Functions: []string{"api.(*HTTP).getMessages", "api.outputToRobustMessages"},
		Rule:      "one case per (number of batches, replies per batch, resume position, lag of the node); non-trivial when the delivery sequence is compared",
	})
}

func init() {
	registerCheck(&CheckDef{
		ID: "C02",
		Runs: func(tier string) []HarnessRun {
			i := repoMod + "/internal"
			redir := map[string]string{
				"(*" + i + "/ircserver.IRCServer).Unmarshal":    "verifStub_Unmarshal",
				"(*" + i + "/ircserver.IRCServer).Marshal":      "verifStub_Marshal",
				"(*" + repoMod + ".FSM).applyRobustMessage":     "verifStub_foldEntry",
				"(*" + i + "/outputstream.OutputStream).Delete": "verifStub_outDelete",
			}
			return []HarnessRun{
				{Name: "snapshot-bookkeeping", Pkg: "", PkgName: "main", Files: []string{"main/c02.go", "main/c07.go", "main/c16.go"}, SymFiles: []string{"main/tmp_sym.go"}, NatFiles: []string{"main/tmp_native.go"},
					Entry: "verifHarness_C02_snapshot", Params: map[string]int{"entries": p4(tier, 3, 4)}, Unwind: 10, NoReplay: true, Redirect: redir},
				{Name: "persist-restore", Pkg: "", PkgName: "main", Files: []string{"main/c02.go", "main/c02p.go", "main/c07.go", "main/c16.go"}, SymFiles: []string{"main/tmp_sym.go"}, NatFiles: []string{"main/tmp_native.go"},
					Entry: "verifHarness_C02_persist_restore", Params: map[string]int{"entries": p4(tier, 3, 4)}, Unwind: 12, NoReplay: true, Redirect: redir},
			}
		},
		Assumptions: []string{
			"the IRC state is abstracted to the set of entries it folds (ghost carried by stubs of Unmarshal / applyRobustMessage / Marshal); the content of the serialized state is C03's obligation, determinism of the fold C01's",
			"the log copy is the real LevelDBStore over the LevelDB model; entries are protobuf-encoded (abstract codec)",
			"pre-state: bookkeeping invariant — the state filed under (first stored index - 1) folds exactly the applied entries that are not stored; stored entries at increasing raft indexes with arbitrary gaps and arbitrary timestamps; arbitrary compaction time and session expiration",
			"induction: after the snapshot one more entry is applied at an arbitrary later index and the lookup key of the next snapshot is examined",
			"persist-restore run: the sink records one chunk per Write; a fresh FSM decodes the chunks with the real decodeProtobuf; bufio.Reader/io.ReadFull are modelled over the chunk list, base64 and protobuf as abstract codecs",
		},
		Bounds:    func(tier string) map[string]interface{} { return map[string]interface{}{"stored_entries": p4(tier, 3, 4), "snapshots": "one per obligation (inductive step)"} },
		Outside:   []string{"FSM.Restore's set-up around decodeProtobuf (closing and re-creating the log copy and the output stream on disk), failed snapshot writes, process restarts", "JSON-format snapshots, robustirc-canary", "reads that are not aligned with the chunks Persist wrote (the snapshot format is length-prefixed; the chunk reader reports anything else as unsupported)", "real LevelDB and file snapshot store behaviour", "native replay (repository methods are redirected): counterexamples are solver models; the reported defect was reproduced natively at design time (§11)"},
		Functions: []string{"main.(*FSM).Snapshot", "main.(*robustSnapshot).Persist", "main.writeLenPrefixed", "main.(*FSM).decodeProtobuf", "main.(*FSM).applyProto", "raftstore.(*LevelDBStore).FirstIndex/LastIndex/GetBulkIterator/DeleteRange/GetLog/StoreLogProto/WriteBatch", "robust.NewMessageFromBytes", "robust.(*Message).Timestamp"},
		Rule:      "one case per number of stored entries and feasible pattern of old/new timestamps; non-trivial when the post-snapshot obligations are evaluated",
	})
	registerCheck(&CheckDef{
		ID: "C20",
		Runs: func(tier string) []HarnessRun {
			r := ircRun("ircserver-locksets", "verifHarness_C20_ircserver", map[string]int{"S": 2, "C": 1, "L": 3, "sym": 0})
			r.Files = append(append([]string{}, ircFiles...), "ircserver/c20.go")
			r.Race = true
			r.ReplayRuns = 20
			stubs := map[string]string{
				"(*" + repoMod + "/internal/outputstream.messageBatch).marshal": "codec.marshal",
				repoMod + "/internal/outputstream.unmarshalMessageBatch":        "codec.unmarshal",
			}
			osr := HarnessRun{Name: "outputstream-locksets", Pkg: "internal/outputstream", PkgName: "outputstream", Files: []string{"outputstream/c08.go", "outputstream/c20.go"},
				SymFiles: []string{"outputstream/c08_sym.go"}, NatFiles: []string{"outputstream/c08_native.go"}, APIs: []string{"ldb"},
				Entry: "verifHarness_C20_outputstream", Unwind: 8, Stubs: stubs, Race: true, ReplayRuns: 20}
			apr := HarnessRun{Name: "api-locksets", Pkg: "internal/api", PkgName: "api", Files: []string{"apipkg/common.go", "apipkg/c11.go", "apipkg/c20.go"}, APIs: []string{"http"},
				Entry: "verifHarness_C20_api", Params: map[string]int{"authlen": 3}, Unwind: 10, Redirect: map[string]string{"time.Sleep": "verifStub_sleep"}, Race: true, ReplayRuns: 20}
			rsr := HarnessRun{Name: "raftstore-locksets", Pkg: "internal/raftstore", PkgName: "raftstore", Files: []string{"raftstore/c09.go", "raftstore/c20.go"}, APIs: []string{"ldb"},
				Entry: "verifHarness_C20_raftstore", Params: map[string]int{"entries": 2, "stable": 0}, Unwind: 8, Race: true, ReplayRuns: 20}
			return []HarnessRun{r, osr, apr, rsr}
		},
		Assumptions: []string{
			"data-race freedom is reduced to lock discipline: for every pair of operations the running system executes concurrently, every two conflicting accesses to the same memory location share a mutex that the writer holds in write mode",
			"operations are executed one after the other on the same symbolic state with the engine's lock table and access log; the solver decides which paths (and hence which accesses) are feasible",
			"a lockset conflict is reported only when the native replay under the race detector (-race, the two operations in parallel, 20 rounds) reports a data race",
		},
		Bounds:    func(tier string) map[string]interface{} { return map[string]interface{}{"operation_pairs": "IRCServer 8 writer-side x 16 reader-side; OutputStream 5 x 3; api.HTTP 8 x 8 (unordered); LevelDBStore 3 x 4", "state": "2 sessions, 1 channel, fixed shape; stream with 3 batches; store with 2 entries", "native_rounds_under_race_detector": 20} },
		Outside:   []string{"happens-before edges other than mutexes (channels, goroutine start)", "schedules (this is a discipline check, not an exploration of interleavings)", "FSM fields (sessionExpirationDur, lastSnapshotState) and package-level variables of main", "operations that block (GetNext waiting for a new message; that path is C08's)", "use of a LevelDBStore after Close (nil handle: a crash, not a race)", "races inside libraries (goleveldb, raft, prometheus)"},
		Functions: []string{"ircserver.(*IRCServer).ProcessMessage", "UpdateLastClientMessageID", "CreateSession", "SetLastProcessed", "MaybeDeleteSession", "ThrottleUntil", "Marshal", "ExpireSessions", "GetSessions", "GetSession", "GetNick", "LastPostMessage", "NumSessions", "NumChannels", "SessionLimit", "ChannelLimit", "TrustedBridge", "Banned", "GetAuth", "OriginWhitelisted", "captchaConfigured",
			"outputstream.(*OutputStream).Add", "Delete", "Get", "GetNext", "LastSeen", "InterruptGetNext",
			"api.(*HTTP).ReplaceState", "ircServer", "ircStore", "output", "setGetMessagesRequests", "deleteGetMessagesRequests", "copyGetMessagesRequests", "DispatchPrivate (password throttle)",
			"raftstore.(*LevelDBStore).StoreLogProto", "DeleteRange", "Close", "FirstIndex", "LastIndex", "GetLog"},
		Rule:      "one case per operation pair; non-trivial when both operations ran and the access logs were compared",
	})
	registerCheck(&CheckDef{
		ID: "C01",
		Runs: func(tier string) []HarnessRun {
			runs := ircStepRuns("verifHarness_C01_step", tier, false, "L", 3, "K", 2, "P", 1, "permute", 1)
			// the commands that walk over all pseudo-clients of a link need at least two of them
			for _, c := range []struct {
				name string
				cmd  int
			}{{"services-quit-2pseudo", cmdQUIT}, {"services-kill-2pseudo", cmdKILL}} {
				runs = append(runs, ircRun(c.name, "verifHarness_C01_step", mergeParams(runs[3].Params, "P", 2, "cmdname", c.cmd)))
			}
			for k := range runs {
				runs[k].Permute = 5
				runs[k].ReplayRuns = 256
			}
			return runs
		},
		Assumptions: append(append([]string{}, ircAssumptions...),
			"2-safety by self-composition: the step is executed twice on the same symbolic state and entry (same draws); the first execution iterates every hash map in canonical order, the second iterates ONE range statement (chosen by the solver) with an arbitrary entry moved to the front; every clock reading is a fresh symbol",
			"map-order counterexamples are replayed natively up to 256 times (Go randomises iteration) and must show two different outputs"),
		Bounds: func(tier string) map[string]interface{} {
			b := ircBounds(tier)
			b["map_iteration_order"] = "one range statement per execution in a rotated order (moves any one entry before all others), maps with up to 5 entries"
			b["string_bytes"] = 3
			b["params"] = 2
			return b
		},
		Outside:   append(append([]string{}, ircOutside...), "order effects that need two range statements reordered simultaneously, or maps with more than 5 entries", "CreateSession/DeleteSession/Config entry types (single straight-line calls without map iteration, except DeleteSession which runs the QUIT handler covered here)"),
		Functions: ircFunctions,
		Rule:      "one case per (role, command, parameter count); non-trivial when both executions completed and were compared",
	})
}

func p4(tier string, q, t int) int {
	if tier == "thorough" {
		return t
	}
	return q
}

var (
	ircFiles = []string{"ircserver/tpl.go", "ircserver/step.go", "ircserver/oracles.go"}
	ircSym   = []string{"ircserver/api_sym.go"}
	ircNat   = []string{"ircserver/api_native.go"}
)