package main

func init() {
	registerCheck(&CheckDef{
		ID: "C19",
		Runs: func(tier string) []HarnessRun {
			peers := 2
			if tier == "thorough" {
				peers = 3
			}
			return []HarnessRun{{Name: "timesafeguard", Pkg: "internal/timesafeguard", PkgName: "timesafeguard",
				Files: []string{"timesafeguard/c19.go"}, Entry: "verifHarness_C19", Params: map[string]int{"peers": peers}, Unwind: 8}}
		},
		Assumptions: []string{
			"time.Time modelled abstractly (DESIGN §3.6): time.Unix(0,n) is the instant n; Sub is exact with saturation; IsZero only for time.Time{}",
			"one local clock: Start and End of a measurement are read from the same monotone clock",
			"log.Printf and the %v renderings of times/durations are uninterpreted (output formatting is not the subject)",
		},
		Bounds: func(tier string) map[string]interface{} {
			peers := 2
			if tier == "thorough" {
				peers = 3
			}
			return map[string]interface{}{"peers": peers, "local_clock_ns": "±2^61", "true_offset_ns": "±2^60", "one_way_delay_ns": "[0,2^59]", "loop_unwind": 8}
		},
		Outside:   []string{"more peers than the bound", "getServerTime/collectTime networking and goroutines", "call sites in main()", "wall-clock step between Start and End"},
		Functions: []string{"timesafeguard.timeResult.worstCaseDrift", "timesafeguard.timeInSync", "timesafeguard.synchronizedWithNetwork", "timesafeguard.(*timeResult).String"},
		Rule:      "one case per number of peers and per feasible path through synchronizedWithNetwork; a case is non-trivial when a feasible path reaches at least one assertion",
	})
}
