package main

import (
	"go/types"
	"strings"
)

type deepOpts struct {
	skip       map[string]bool // "Type.field"
	nilEqEmpty bool
	visited    map[[2]*Obj]bool
}

// newDeepOpts parses "skip=Session.deleted,IRCServer.ServerCreation;nileqempty".
func newDeepOpts(s string) *deepOpts {
	o := &deepOpts{skip: map[string]bool{}, visited: map[[2]*Obj]bool{}}
	for _, part := range strings.Split(s, ";") {
		part = strings.TrimSpace(part)
		switch {
		case strings.HasPrefix(part, "skip="):
			for _, f := range strings.Split(part[5:], ",") {
				o.skip[strings.TrimSpace(f)] = true
			}
		case part == "nileqempty":
			o.nilEqEmpty = true
		}
	}
	return o
}

func typeName(t types.Type) string {
	if n, ok := t.(*types.Named); ok {
		return n.Obj().Name()
	}
	return ""
}

func isSyncType(t types.Type) bool {
	n, ok := t.(*types.Named)
	return ok && n.Obj().Pkg() != nil && n.Obj().Pkg().Path() == "sync"
}

func (in *Interp) deepEq(x, y Value, t types.Type, o *deepOpts) *Term {
	b := in.b
	if t != nil && isSyncType(t) {
		return b.True
	}
	switch a := x.(type) {
	case nil:
		return b.Bool(y == nil)
	case Sc:
		c, ok := y.(Sc)
		if !ok {
			return b.False
		}
		return b.Eq(a.T, c.T)
	case *Str:
		c, ok := y.(*Str)
		if !ok {
			return b.False
		}
		return in.str.Eq(a, c)
	case TimeV:
		c, ok := y.(TimeV)
		if !ok {
			return b.False
		}
		if a.Kind != TimeZero && c.Kind != TimeZero && a.Kind != c.Kind {
			// nanosecond- vs second-resolution instants: equal only if both are zero
			return b.And(in.zflag(a), in.zflag(c))
		}
		return in.timeEqual(a, c)
	case PtrV:
		c, ok := y.(PtrV)
		if !ok {
			return b.False
		}
		if a.obj == nil || c.obj == nil {
			return b.Bool(a.obj == nil && c.obj == nil)
		}
		if t != nil {
			if pt, ok := t.Underlying().(*types.Pointer); ok && isSyncType(pt.Elem()) {
				return b.True
			}
		}
		if len(a.path) != 0 || len(c.path) != 0 {
			// interior pointers: compare the addressed cells
			return in.deepEq(in.load(a, 0), in.load(c, 0), nil, o)
		}
		k := [2]*Obj{a.obj, c.obj}
		if o.visited[k] {
			return b.True
		}
		o.visited[k] = true
		r := in.deepEq(a.obj.val, c.obj.val, a.obj.typ, o)
		return r
	case *StructV:
		c, ok := y.(*StructV)
		if !ok || len(a.F) != len(c.F) {
			return b.False
		}
		var st *types.Struct
		tn := ""
		if t != nil {
			st, _ = t.Underlying().(*types.Struct)
			tn = typeName(t)
		}
		var conj []*Term
		for i := range a.F {
			var ft types.Type
			if st != nil {
				if o.skip[tn+"."+st.Field(i).Name()] {
					continue
				}
				ft = st.Field(i).Type()
			}
			conj = append(conj, in.deepEq(a.F[i], c.F[i], ft, o))
		}
		return b.And(conj...)
	case *ArrayV:
		c, ok := y.(*ArrayV)
		if !ok || len(a.E) != len(c.E) {
			return b.False
		}
		var et types.Type
		if t != nil {
			if at, ok := t.Underlying().(*types.Array); ok {
				et = at.Elem()
			}
		}
		var conj []*Term
		for i := range a.E {
			conj = append(conj, in.deepEq(a.E[i], c.E[i], et, o))
		}
		return b.And(conj...)
	case SliceV:
		switch c := y.(type) {
		case SliceV:
			if !o.nilEqEmpty && (a.arr == nil) != (c.arr == nil) {
				return b.False
			}
			if a.len != c.len {
				return b.False
			}
			var et types.Type
			if t != nil {
				if st, ok := t.Underlying().(*types.Slice); ok {
					et = st.Elem()
				}
			}
			var conj []*Term
			ea, ec := sliceElems(a), sliceElems(c)
			for i := range ea {
				conj = append(conj, in.deepEq(ea[i], ec[i], et, o))
			}
			return b.And(conj...)
		case BytesV:
			return in.deepEq(BytesV{S: in.sliceToStr(a, 0), Nil: a.arr == nil}, c, t, o)
		}
		return b.False
	case BytesV:
		switch c := y.(type) {
		case BytesV:
			eq := in.str.Eq(a.S, c.S)
			if !o.nilEqEmpty && a.Nil != c.Nil {
				return b.False
			}
			return eq
		case SliceV:
			return in.deepEq(a, BytesV{S: in.sliceToStr(c, 0), Nil: c.arr == nil}, t, o)
		}
		return b.False
	case MapV:
		c, ok := y.(MapV)
		if !ok {
			return b.False
		}
		if a.m == nil || c.m == nil {
			if a.m == nil && c.m == nil {
				return b.True
			}
			if !o.nilEqEmpty {
				// nil vs non-nil map
				return b.False
			}
		}
		var kt, vt types.Type
		var ae, ce []*MapEntry
		if a.m != nil {
			kt, vt, ae = a.m.kt, a.m.vt, a.m.entries
		}
		if c.m != nil {
			kt, vt, ce = c.m.kt, c.m.vt, c.m.entries
		}
		sub := func(xs, ys []*MapEntry) *Term {
			var conj []*Term
			for _, e := range xs {
				if e.present.IsFalse() {
					continue
				}
				var dis []*Term
				for _, f := range ys {
					if f.present.IsFalse() {
						continue
					}
					keq := in.equalValues(e.key, f.key, kt, 0)
					if keq.IsFalse() {
						continue
					}
					dis = append(dis, b.And(f.present, keq, in.deepEq(e.val, f.val, vt, o)))
				}
				conj = append(conj, b.Implies(e.present, b.Or(dis...)))
			}
			return b.And(conj...)
		}
		return b.And(sub(ae, ce), sub(ce, ae))
	case IfaceV:
		c, ok := y.(IfaceV)
		if !ok {
			return b.False
		}
		if a.T == nil || c.T == nil {
			return b.Bool(a.T == nil && c.T == nil)
		}
		if !types.Identical(a.T, c.T) {
			return b.False
		}
		return in.deepEq(a.V, c.V, a.T, o)
	case FuncV:
		c, ok := y.(FuncV)
		if !ok {
			return b.False
		}
		return b.Bool(a.Nil == c.Nil && a.Fn == c.Fn && a.Builtin == c.Builtin)
	case OpaqueV:
		c, ok := y.(OpaqueV)
		if !ok || a.Tag != c.Tag {
			return b.False
		}
		switch a.Tag {
		case "regexp":
			ra, rc := a.Data.(*reModel), c.Data.(*reModel)
			return in.str.Eq(ra.pat, rc.pat)
		case "bytes.Buffer":
			return in.str.Eq(a.Data.(*bufModel).s, c.Data.(*bufModel).s)
		}
		return b.True
	case ChanV:
		c, ok := y.(ChanV)
		return b.Bool(ok && a.c == c.c)
	case TupleV:
		c, ok := y.(TupleV)
		if !ok || len(a.E) != len(c.E) {
			return b.False
		}
		var conj []*Term
		for i := range a.E {
			conj = append(conj, in.deepEq(a.E[i], c.E[i], nil, o))
		}
		return b.And(conj...)
	}
	in.unsupported("deepEq on %T", x)
	return nil
}
