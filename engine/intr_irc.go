package main

// Exact, branch-free summaries of the rendering functions of gopkg.in/sorcix/irc.v2
// (a third-party library): (*Message).Bytes/String and (*Prefix).String.
// The real bodies fork three ways per rendered line on properties of the
// trailing parameter; the summaries express the same result as a rope with
// conditional one-byte segments.  They are validated against the interpreted
// real bodies by `gosym selftest` (and can be switched off with NoSummaries).

import (
	"golang.org/x/tools/go/ssa"
)

// condByte is a segment that is the single byte c when cond holds and empty otherwise.
func (in *Interp) condByte(c byte, cond *Term) *Str {
	b := in.b
	if cond.IsTrue() {
		return in.str.Const(string([]byte{c}))
	}
	if cond.IsFalse() {
		return &Str{}
	}
	ln := b.ZExt(b.Ite(cond, b.BV(1, narrowW), b.BV(0, narrowW)), 64)
	return &Str{segs: []Seg{{sym: &SymStr{Len: ln, B: []*Term{b.BV(uint64(c), 8)}}}}}
}

func (in *Interp) nonEmpty(s *Str) *Term {
	b := in.b
	return b.Not(b.Eq(in.str.Len(s), b.BV(0, 64)))
}

func (in *Interp) prefixStr(p *StructV) *Str {
	name, user, host := p.F[0].(*Str), p.F[1].(*Str), p.F[2].(*Str)
	return in.str.Concat(name, in.condByte('!', in.nonEmpty(user)), user, in.condByte('@', in.nonEmpty(host)), host)
}

func (in *Interp) messageBytes(mp PtrV, pos tokenPos) *Str {
	b := in.b
	so := in.str
	m := in.load(mp, pos).(*StructV)
	var parts []*Str
	if pp := m.F[0].(PtrV); !pp.IsNil() {
		parts = append(parts, so.Const(":"), in.prefixStr(in.load(pp, pos).(*StructV)), so.Const(" "))
	}
	parts = append(parts, m.F[1].(*Str))
	params := sliceElems(m.F[2])
	if len(params) > 1 {
		for _, p := range params[:len(params)-1] {
			parts = append(parts, so.Const(" "), p.(*Str))
		}
	}
	if len(params) > 0 {
		tr := params[len(params)-1].(*Str)
		empty := b.Eq(so.Len(tr), b.BV(0, 64))
		var first *Term
		if tr.Cap() > 0 {
			first = b.And(b.Not(empty), b.Eq(so.ByteAt(tr, b.BV(0, 64)), b.BV(':', 8)))
		} else {
			first = b.False
		}
		colon := b.Or(empty, so.ContainsByte(tr, ' '), first)
		parts = append(parts, so.Const(" "), in.condByte(':', colon), tr)
	}
	res := so.Concat(parts...)
	if res.Cap() > 510 {
		ln := so.Len(res)
		over := b.ULt(b.BV(510, 64), ln)
		if !over.IsFalse() {
			res = so.Slice(res, b.BV(0, 64), b.Ite(over, b.BV(510, 64), ln))
		}
	}
	return res
}

func registerIRC(e *Engine) {
	reg := func(name string, f IntrinsicFn) { e.intr[name] = f }
	const irc = "gopkg.in/sorcix/irc.v2"
	reg("(*"+irc+".Message).Bytes", func(in *Interp, _ *frame, _ *ssa.Function, args []Value, pos tokenPos) Value {
		p := args[0].(PtrV)
		if p.IsNil() {
			in.goPanicf(pos, "nilderef", "nil *irc.Message")
		}
		return BytesV{S: in.messageBytes(p, pos)}
	})
	reg("(*"+irc+".Message).String", func(in *Interp, _ *frame, _ *ssa.Function, args []Value, pos tokenPos) Value {
		p := args[0].(PtrV)
		if p.IsNil() {
			in.goPanicf(pos, "nilderef", "nil *irc.Message")
		}
		return in.messageBytes(p, pos)
	})
	reg("(*"+irc+".Prefix).String", func(in *Interp, _ *frame, _ *ssa.Function, args []Value, pos tokenPos) Value {
		p := args[0].(PtrV)
		if p.IsNil() {
			in.goPanicf(pos, "nilderef", "nil *irc.Prefix")
		}
		return in.prefixStr(in.load(p, pos).(*StructV))
	})
}
