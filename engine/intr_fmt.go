package main

import (
	"go/types"
	"strings"

	"golang.org/x/tools/go/ssa"
)

func registerFmt(e *Engine) {
	reg := func(name string, f IntrinsicFn) { e.intr[name] = f }
	reg("fmt.Sprintf", func(in *Interp, caller *frame, _ *ssa.Function, args []Value, pos tokenPos) Value {
		return in.sprintf(caller, args[0].(*Str), sliceElems(args[1]), pos)
	})
	reg("fmt.Errorf", func(in *Interp, caller *frame, _ *ssa.Function, args []Value, pos tokenPos) Value {
		return in.newError(in.sprintf(caller, args[0].(*Str), sliceElems(args[1]), pos))
	})
	reg("fmt.Sprint", func(in *Interp, caller *frame, _ *ssa.Function, args []Value, pos tokenPos) Value {
		var parts []*Str
		for _, a := range sliceElems(args[0]) {
			parts = append(parts, in.fmtValue(caller, a, 'v', pos))
		}
		return in.str.Concat(parts...)
	})
	noop := func(in *Interp, _ *frame, fn *ssa.Function, _ []Value, _ tokenPos) Value { return in.zeroResults(fn) }
	for _, n := range []string{"fmt.Printf", "fmt.Println", "fmt.Print", "fmt.Fprintf", "fmt.Fprintln", "fmt.Fprint"} {
		reg(n, noop)
	}
}

func sliceElems(v Value) []Value {
	sl, ok := v.(SliceV)
	if !ok || sl.arr == nil {
		return nil
	}
	arr := sl.arr.val.(*ArrayV)
	return arr.E[sl.off : sl.off+sl.len]
}

func (in *Interp) sprintf(caller *frame, format *Str, args []Value, pos tokenPos) *Str {
	f, ok := format.Concrete()
	if !ok {
		in.unsupported("fmt with symbolic format")
	}
	var parts []*Str
	ai := 0
	for i := 0; i < len(f); {
		j := strings.IndexByte(f[i:], '%')
		if j < 0 {
			parts = append(parts, in.str.Const(f[i:]))
			break
		}
		if j > 0 {
			parts = append(parts, in.str.Const(f[i:i+j]))
		}
		i += j + 1
		if i >= len(f) {
			parts = append(parts, in.str.Const("%!(NOVERB)"))
			break
		}
		// flags/width are not interpreted exactly: fall back to an uninterpreted rendering
		k := i
		for k < len(f) && strings.IndexByte("+-# 0123456789.", f[k]) >= 0 {
			k++
		}
		if k >= len(f) {
			break
		}
		verb := f[k]
		flags := f[i:k]
		i = k + 1
		if verb == '%' {
			parts = append(parts, in.str.Const("%"))
			continue
		}
		if ai >= len(args) {
			parts = append(parts, in.str.Const("%!"+string(verb)+"(MISSING)"))
			continue
		}
		a := args[ai]
		ai++
		if flags != "" {
			parts = append(parts, in.fmtOpaque(caller, "fmt%"+flags+string(verb), a, pos))
			continue
		}
		parts = append(parts, in.fmtValue(caller, a, verb, pos))
	}
	return in.str.Concat(parts...)
}

// fmtValue renders one operand for the given verb.
func (in *Interp) fmtValue(caller *frame, a Value, verb byte, pos tokenPos) *Str {
	iv, ok := a.(IfaceV)
	if !ok {
		return in.fmtOpaque(caller, "fmt%"+string(verb), a, pos)
	}
	if iv.T == nil {
		if verb == 'v' || verb == 's' {
			return in.str.Const("<nil>")
		}
		return in.str.Const("%!" + string(verb) + "(<nil>)")
	}
	// error / Stringer first for %v %s
	if verb == 'v' || verb == 's' || verb == 'q' {
		if hasMethod(iv.T, "Error") {
			if m := in.eng.prog.LookupMethod(iv.T, nil, "Error"); m != nil {
				s := in.callResultStr(caller, m, iv.V, pos)
				if verb == 'q' {
					return in.quoteStr(s)
				}
				return s
			}
		}
		if hasMethod(iv.T, "String") {
			if m := in.eng.prog.LookupMethod(iv.T, nil, "String"); m != nil {
				s := in.callResultStr(caller, m, iv.V, pos)
				if verb == 'q' {
					return in.quoteStr(s)
				}
				return s
			}
		}
	}
	switch v := iv.V.(type) {
	case *Str:
		switch verb {
		case 's', 'v':
			return v
		case 'q':
			return in.quoteStr(v)
		}
	case BytesV:
		switch verb {
		case 's':
			return v.S
		}
	case Sc:
		if isBoolT(iv.T) {
			if v.T.IsConst() {
				if v.T.IsTrue() {
					return in.str.Const("true")
				}
				return in.str.Const("false")
			}
			return in.str.Ite(v.T, in.str.Const("true"), in.str.Const("false"))
		}
		if _, signed, ok := intWidth(iv.T); ok {
			switch verb {
			case 'd', 'v':
				return in.fmtInt(v.T, signed, 10)
			case 'x':
				if signed {
					if v.T.IsConst() {
						return in.fmtInt(v.T, true, 16)
					}
					break
				}
				return in.fmtInt(v.T, false, 16)
			}
		}
	}
	return in.fmtOpaque(caller, "fmt%"+string(verb)+":"+types.TypeString(iv.T, nil), iv.V, pos)
}

func hasMethod(t types.Type, name string) bool {
	ms := types.NewMethodSet(t)
	for i := 0; i < ms.Len(); i++ {
		if ms.At(i).Obj().Name() == name {
			sig := ms.At(i).Type().(*types.Signature)
			return sig.Params().Len() == 0 && sig.Results().Len() == 1 && isString(sig.Results().At(0).Type())
		}
	}
	return false
}

func (in *Interp) callResultStr(caller *frame, m *ssa.Function, recv Value, pos tokenPos) *Str {
	r := in.callSSA(caller, m, []Value{recv}, nil, pos)
	if s, ok := r.(*Str); ok {
		return s
	}
	return in.str.Const("?")
}

// fmtOpaque renders a value as an uninterpreted clean string keyed on its scalar content.
func (in *Interp) fmtOpaque(caller *frame, name string, a Value, pos tokenPos) *Str {
	var strs []*Str
	var bvs []*Term
	var walk func(v Value, depth int)
	walk = func(v Value, depth int) {
		if depth > 4 {
			return
		}
		switch x := v.(type) {
		case Sc:
			bvs = append(bvs, x.T)
		case *Str:
			strs = append(strs, x)
		case BytesV:
			strs = append(strs, x.S)
		case IfaceV:
			walk(x.V, depth+1)
		case *StructV:
			for _, f := range x.F {
				walk(f, depth+1)
			}
		case *ArrayV:
			for _, f := range x.E {
				walk(f, depth+1)
			}
		case TimeV:
			bvs = append(bvs, in.b.BV(uint64(x.Kind), 8), x.V)
		case PtrV:
			if x.obj != nil {
				bvs = append(bvs, in.b.BV(uint64(x.obj.id), 32))
			}
		case SliceV:
			for _, f := range sliceElems(x) {
				walk(f, depth+1)
			}
		}
	}
	walk(a, 0)
	cap := 24
	for _, s := range strs {
		cap += 2*s.Cap() + 2
	}
	pred := in.isCleanByte
	if len(strs) > 0 && !strings.Contains(name, "%q") {
		pred = nil // may reproduce bytes of its string operands
	}
	return in.ufStr(name, 0, cap, pred, strs, bvs)
}
