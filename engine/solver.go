package main

// One persistent SMT solver process per worker, spoken to over stdin/stdout.
// The assertion stack mirrors a path-condition prefix: one (push) level per
// path-condition element, so that consecutive queries along a DFS share work.

import (
	"bufio"
	"fmt"
	"io"
	"os"
	"os/exec"
	"strconv"
	"strings"
	"time"
)

type SatResult int

const (
	Unsat SatResult = iota
	Sat
	Unknown
)

func (r SatResult) String() string { return [...]string{"unsat", "sat", "unknown"}[r] }

type SolverStats struct {
	Queries int
	Sat     int
	Unsat   int
	Unknown int
	Errors  int
	Time    time.Duration
	Hist    [5]int // <5ms, <20ms, <100ms, <1s, >=1s
}

type Solver struct {
	kind    string // z3, z3-new, cvc5
	cmd     *exec.Cmd
	in      io.WriteCloser
	out     *bufio.Reader
	defined map[int]bool    // term ids currently defined
	syms    map[string]bool // currently declared symbols
	lvDefs  [][]int         // per push level: term ids defined there
	lvSyms  [][]string      // per push level: symbols declared there
	stack   []*Term         // the path condition of the last query
	frames  [][]*Term       // asserted frames, one push level each
	marks   []int           // frame start indexes for the next syncTo
	stats   SolverStats
	timeout int // ms per query
	log     io.Writer
	dead    bool
	nmark   int
	lastErr string
	lastExtra *Term
	killed    bool
	ctx       string
	ndump     int
}

func solverArgs(kind string, timeoutMs int) (string, []string) {
	switch kind {
	case "z3":
		return "z3", []string{"-in", "-smt2"}
	case "z3-new":
		return "z3-new", []string{"-in", "-smt2"}
	case "cvc5":
		return "cvc5", []string{"--incremental", "--lang=smt2", "--produce-models", "--tlimit-per=" + strconv.Itoa(timeoutMs)}
	}
	panic("unknown solver " + kind)
}

func NewSolver(kind string, timeoutMs int) (*Solver, error) {
	bin, args := solverArgs(kind, timeoutMs)
	cmd := exec.Command(bin, args...)
	in, err := cmd.StdinPipe()
	if err != nil {
		return nil, err
	}
	outp, err := cmd.StdoutPipe()
	if err != nil {
		return nil, err
	}
	cmd.Stderr = nil
	if err := cmd.Start(); err != nil {
		return nil, err
	}
	s := &Solver{kind: kind, cmd: cmd, in: in, out: bufio.NewReaderSize(outp, 1<<16),
		defined: map[int]bool{}, syms: map[string]bool{}, timeout: timeoutMs}
	// NB: no :global-declarations — it makes z3 ten times slower on these
	// incremental queries; definitions are tracked per push level instead.
	s.send("(set-option :produce-models true)")
	s.lvDefs = [][]int{nil}
	s.lvSyms = [][]string{nil}
	if kind == "cvc5" {
		s.send("(set-logic QF_BV)")
	} else {
		s.send(fmt.Sprintf("(set-option :timeout %d)", timeoutMs))
	}
	return s, nil
}

func (s *Solver) Close() {
	if s.dead {
		return
	}
	s.dead = true
	s.in.Close()
	done := make(chan struct{})
	go func() { s.cmd.Wait(); close(done) }()
	select {
	case <-done:
	case <-time.After(2 * time.Second):
		s.cmd.Process.Kill()
		<-done
	}
}

func (s *Solver) send(line string) {
	if s.log != nil {
		fmt.Fprintln(s.log, line)
	}
	io.WriteString(s.in, line)
	io.WriteString(s.in, "\n")
}

// define emits declarations/definitions for every not-yet-known node under t.
func (s *Solver) define(t *Term) {
	if t.op == OpConst {
		return
	}
	if t.op == OpSym {
		s.declare(t)
		return
	}
	if s.defined[t.id] {
		return
	}
	// iterative post-order to avoid deep recursion
	type fr struct {
		t *Term
		i int
	}
	st := []fr{{t, 0}}
	for len(st) > 0 {
		f := &st[len(st)-1]
		if f.i < len(f.t.args) {
			a := f.t.args[f.i]
			f.i++
			if a.op == OpConst {
				continue
			}
			if a.op == OpSym {
				s.declare(a)
				continue
			}
			if !s.defined[a.id] {
				st = append(st, fr{a, 0})
			}
			continue
		}
		if !s.defined[f.t.id] {
			s.defined[f.t.id] = true
			lv := len(s.lvDefs) - 1
			s.lvDefs[lv] = append(s.lvDefs[lv], f.t.id)
			s.send(f.t.def())
		}
		st = st[:len(st)-1]
	}
}

func (s *Solver) declare(a *Term) {
	if !s.syms[a.name] {
		s.syms[a.name] = true
		lv := len(s.lvSyms) - 1
		s.lvSyms[lv] = append(s.lvSyms[lv], a.name)
		s.send(fmt.Sprintf("(declare-const %s %s)", a.name, sortStr(a.w)))
	}
}

func (s *Solver) push() {
	s.send("(push 1)")
	s.lvDefs = append(s.lvDefs, nil)
	s.lvSyms = append(s.lvSyms, nil)
}

func (s *Solver) pop(n int) {
	if n <= 0 {
		return
	}
	s.send(fmt.Sprintf("(pop %d)", n))
	for i := 0; i < n; i++ {
		lv := len(s.lvDefs) - 1
		for _, id := range s.lvDefs[lv] {
			delete(s.defined, id)
		}
		for _, nm := range s.lvSyms[lv] {
			delete(s.syms, nm)
		}
		s.lvDefs = s.lvDefs[:lv]
		s.lvSyms = s.lvSyms[:lv]
	}
}

// syncTo makes the solver's assertion stack equal to pc.
// syncTo makes the solver's assertion stack equal to pc.  The path condition
// is grouped into frames (one per decision; marks are the start indexes), one
// push level per frame.
func (s *Solver) syncTo(pc []*Term) {
	marks := s.marks
	// build frames
	var frames [][]*Term
	start := 0
	for _, m := range marks {
		if m > start && m <= len(pc) {
			frames = append(frames, pc[start:m])
			start = m
		}
	}
	if start < len(pc) {
		frames = append(frames, pc[start:])
	}
	n := 0
	for n < len(frames) && n < len(s.frames) && sameFrame(frames[n], s.frames[n]) {
		n++
	}
	if d := len(s.frames) - n; d > 0 {
		s.pop(d)
		s.frames = s.frames[:n]
	}
	for _, f := range frames[n:] {
		s.push()
		for _, t := range f {
			s.define(t)
			s.send("(assert " + t.ref() + ")")
		}
		s.frames = append(s.frames, append([]*Term{}, f...))
	}
	s.stack = pc
}

func sameFrame(a, b []*Term) bool {
	if len(a) != len(b) {
		return false
	}
	for i := range a {
		if a[i] != b[i] {
			return false
		}
	}
	return true
}

func (s *Solver) readLine() (string, error) {
	line, err := s.out.ReadString('\n')
	return strings.TrimSpace(line), err
}

func (s *Solver) readAnswer() SatResult {
	// the caller has sent (check-sat); delimit its output with an echo marker
	s.nmark++
	mark := "@" + strconv.Itoa(s.nmark) + "@"
	s.send("(echo \"" + mark + "\")")
	res := Unknown
	got := false
	// watchdog: a solver that ignores its own timeout is killed (answer: unknown)
	wd := time.AfterFunc(time.Duration(s.timeout)*time.Millisecond+10*time.Second, func() {
		s.killed = true
		s.cmd.Process.Kill()
	})
	defer wd.Stop()
	for {
		line, err := s.readLine()
		if err != nil {
			s.stats.Errors++
			s.dead = true
			return Unknown
		}
		switch {
		case strings.Contains(line, mark):
			if !got {
				return Unknown
			}
			return res
		case line == "sat":
			res, got = Sat, true
		case line == "unsat":
			res, got = Unsat, true
		case line == "unknown" || line == "timeout":
			res, got = Unknown, true
		case strings.HasPrefix(line, "(error"):
			s.stats.Errors++
			s.lastErr = line
			if s.log != nil {
				fmt.Fprintln(s.log, "; ERROR:", line)
			}
			res, got = Unknown, true
			// an error anywhere makes this answer inconclusive
			for {
				l2, err := s.readLine()
				if err != nil {
					s.dead = true
					return Unknown
				}
				if strings.Contains(l2, mark) {
					return Unknown
				}
			}
		}
	}
}

// Check decides satisfiability of pc ∧ extra (extra may be nil).
func (s *Solver) Check(pc []*Term, extra *Term) SatResult {
	if s.dead {
		return Unknown
	}
	start := time.Now()
	s.syncTo(pc)
	s.lastExtra = extra
	if extra != nil {
		s.push()
		s.define(extra)
		s.send("(assert " + extra.ref() + ")")
	}
	s.send("(check-sat)")
	r := s.readAnswer()
	if extra != nil {
		s.pop(1)
	}
	s.account(r, start)
	return r
}

func (s *Solver) account(r SatResult, start time.Time) {
	if d := time.Since(start); d > time.Second && os.Getenv("GOSYM_SLOW") != "" {
		seen := map[int]bool{}
		var count func(t *Term)
		count = func(t *Term) {
			if seen[t.id] {
				return
			}
			seen[t.id] = true
			for _, a := range t.args {
				count(a)
			}
		}
		for _, t := range s.stack {
			count(t)
		}
		if s.lastExtra != nil {
			count(s.lastExtra)
		}
		ops := map[Op]int{}
		for id := range seen {
			_ = id
		}
		fmt.Fprintf(os.Stderr, "SLOW %.1fs %v pc=%d dag=%d ctx=%s\n", d.Seconds(), r, len(s.stack), len(seen), s.ctx)
		if dir := os.Getenv("GOSYM_DUMPSLOW"); dir != "" && s.ndump < 3 {
			s.ndump++
			all := append([]*Term{}, s.stack...)
			if s.lastExtra != nil {
				all = append(all, s.lastExtra)
			}
			dumpStandalone(fmt.Sprintf("%s/slow-%d-%d.smt2", dir, os.Getpid(), s.nmark), all)
		}
		_ = ops
	}
	s.stats.Queries++
	d := time.Since(start)
	s.stats.Time += d
	switch {
	case d < 5*time.Millisecond:
		s.stats.Hist[0]++
	case d < 20*time.Millisecond:
		s.stats.Hist[1]++
	case d < 100*time.Millisecond:
		s.stats.Hist[2]++
	case d < time.Second:
		s.stats.Hist[3]++
	default:
		s.stats.Hist[4]++
	}
	switch r {
	case Sat:
		s.stats.Sat++
	case Unsat:
		s.stats.Unsat++
	default:
		s.stats.Unknown++
	}
}

// Model decides pc ∧ extra and, when sat, returns values for the named symbols.
func (s *Solver) Model(pc []*Term, extra *Term, syms []*Term) (SatResult, map[string]uint64) {
	if s.dead {
		return Unknown, nil
	}
	start := time.Now()
	s.syncTo(pc)
	s.push()
	for _, y := range syms {
		s.define(y)
	}
	if extra != nil {
		s.define(extra)
		s.send("(assert " + extra.ref() + ")")
	}
	s.send("(check-sat)")
	r := s.readAnswer()
	var model map[string]uint64
	if r == Sat && len(syms) > 0 {
		model = map[string]uint64{}
		// ask in chunks to keep lines short
		for i := 0; i < len(syms); i += 64 {
			j := i + 64
			if j > len(syms) {
				j = len(syms)
			}
			var sb strings.Builder
			sb.WriteString("(get-value (")
			for _, y := range syms[i:j] {
				sb.WriteString(y.ref())
				sb.WriteByte(' ')
			}
			sb.WriteString("))")
			s.send(sb.String())
			txt := s.readSexp()
			vals := parseValueList(txt)
			for k, y := range syms[i:j] {
				if k < len(vals) {
					model[y.ref()] = vals[k]
				}
			}
		}
	}
	s.pop(1)
	s.account(r, start)
	return r, model
}

// readSexp reads one balanced s-expression (possibly spanning lines).
func (s *Solver) readSexp() string {
	var sb strings.Builder
	depth := 0
	started := false
	for {
		line, err := s.out.ReadString('\n')
		if err != nil {
			s.dead = true
			return sb.String()
		}
		for _, c := range line {
			if c == '(' {
				depth++
				started = true
			} else if c == ')' {
				depth--
			}
		}
		sb.WriteString(line)
		if started && depth <= 0 {
			return sb.String()
		}
	}
}

// parseValues parses "((term value) (term value) ...)" positionally: z3 prints
// define-fun names expanded, so only the order identifies the entries.
func parseValueList(txt string) []uint64 {
	toks := tokenize(txt)
	var vals []uint64
	depth := 0
	var last []string // tokens of the current top-level pair at depth 2
	for _, t := range toks {
		switch t {
		case "(":
			depth++
			if depth == 2 {
				last = last[:0]
			} else if depth > 2 {
				last = append(last, t)
			}
		case ")":
			if depth == 2 {
				vals = append(vals, valueOfTail(last))
			} else if depth > 2 {
				last = append(last, t)
			}
			depth--
		default:
			if depth >= 2 {
				last = append(last, t)
			}
		}
	}
	return vals
}

// valueOfTail reads the value at the end of a (term value) pair's token list.
func valueOfTail(toks []string) uint64 {
	n := len(toks)
	if n == 0 {
		return 0
	}
	v := toks[n-1]
	switch {
	case v == "true":
		return 1
	case v == "false":
		return 0
	case strings.HasPrefix(v, "#x"):
		r, _ := strconv.ParseUint(v[2:], 16, 64)
		return r
	case strings.HasPrefix(v, "#b"):
		r, _ := strconv.ParseUint(v[2:], 2, 64)
		return r
	case v == ")" && n >= 5 && toks[n-4] == "_" && strings.HasPrefix(toks[n-3], "bv"):
		r, _ := strconv.ParseUint(toks[n-3][2:], 10, 64)
		return r
	}
	return 0
}

func tokenize(s string) []string {
	var toks []string
	cur := strings.Builder{}
	flush := func() {
		if cur.Len() > 0 {
			toks = append(toks, cur.String())
			cur.Reset()
		}
	}
	for _, c := range s {
		switch c {
		case '(', ')':
			flush()
			toks = append(toks, string(c))
		case ' ', '\n', '\t', '\r':
			flush()
		default:
			cur.WriteRune(c)
		}
	}
	flush()
	return toks
}

// dumpStandalone writes a self-contained SMT-LIB file asserting the given terms.
func dumpStandalone(path string, asserts []*Term) {
	f, err := os.Create(path)
	if err != nil {
		return
	}
	defer f.Close()
	w := bufio.NewWriter(f)
	defer w.Flush()
	done := map[int]bool{}
	syms := map[string]bool{}
	var emit func(t *Term)
	emit = func(t *Term) {
		if t.op == OpConst {
			return
		}
		if t.op == OpSym {
			if !syms[t.name] {
				syms[t.name] = true
				fmt.Fprintf(w, "(declare-const %s %s)\n", t.name, sortStr(t.w))
			}
			return
		}
		if done[t.id] {
			return
		}
		done[t.id] = true
		for _, a := range t.args {
			emit(a)
		}
		fmt.Fprintln(w, t.def())
	}
	for _, t := range asserts {
		emit(t)
		fmt.Fprintf(w, "(assert %s)\n", t.ref())
	}
	fmt.Fprintln(w, "(check-sat)")
}
