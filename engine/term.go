package main

// Hash-consed SMT terms (QF_BV only: Bool and bit-vectors up to 64 bits) with
// constant folding, light algebraic simplification and unsigned interval
// tracking.  Every Term is emitted to the solver once as a zero-argument
// define-fun, so the DAG structure is preserved.

import (
	"fmt"
	"math/big"
	"math/bits"
	"sort"
	"strconv"
	"strings"
)

type Op uint8

const (
	OpConst Op = iota
	OpSym
	OpNot
	OpAnd
	OpOr
	OpIte
	OpEq
	OpAdd
	OpSub
	OpMul
	OpUDiv
	OpURem
	OpSDiv
	OpSRem
	OpBvAnd
	OpBvOr
	OpBvXor
	OpShl
	OpLShr
	OpAShr
	OpULt
	OpULe
	OpSLt
	OpSLe
	OpNeg
	OpBvNot
	OpExtract
	OpConcat
	OpZExt
	OpSExt
)

var opNames = map[Op]string{
	OpNot: "not", OpAnd: "and", OpOr: "or", OpIte: "ite", OpEq: "=",
	OpAdd: "bvadd", OpSub: "bvsub", OpMul: "bvmul", OpUDiv: "bvudiv", OpURem: "bvurem",
	OpSDiv: "bvsdiv", OpSRem: "bvsrem", OpBvAnd: "bvand", OpBvOr: "bvor", OpBvXor: "bvxor",
	OpShl: "bvshl", OpLShr: "bvlshr", OpAShr: "bvashr", OpULt: "bvult", OpULe: "bvule",
	OpSLt: "bvslt", OpSLe: "bvsle", OpNeg: "bvneg", OpBvNot: "bvnot", OpConcat: "concat",
}

// Term width 0 means Bool.
type Term struct {
	id     int
	op     Op
	w      uint8 // 0 = Bool, else bit-vector width
	args   []*Term
	val    uint64 // OpConst value (Bool: 0/1); OpExtract: hi<<8|lo ; ZExt/SExt: extra bits
	name   string   // OpSym
	coefs  []uint64 // OpAdd: normalised sum  Σ coefs[i]*args[i] + val  (mod 2^w)
	lo, hi uint64   // unsigned interval (bit-vectors only)
	slo, shi int64  // signed interval (bit-vectors only)
}

func (t *Term) IsConst() bool { return t.op == OpConst }
func (t *Term) IsTrue() bool  { return t.op == OpConst && t.w == 0 && t.val == 1 }
func (t *Term) IsFalse() bool { return t.op == OpConst && t.w == 0 && t.val == 0 }
func (t *Term) IsBool() bool  { return t.w == 0 }

func mask(w uint8) uint64 {
	if w >= 64 {
		return ^uint64(0)
	}
	return (uint64(1) << w) - 1
}

func signExt(v uint64, w uint8) int64 {
	if w >= 64 {
		return int64(v)
	}
	sh := 64 - uint(w)
	return int64(v<<sh) >> sh
}

// Builder owns the hash-cons table.  One per worker; not safe for concurrent use.
type Builder struct {
	tab    map[string]*Term
	terms  []*Term
	True   *Term
	False  *Term
	nfresh int
	nmemo  map[int]*Term
	eqMemo map[[2]int]*Term
}

func NewBuilder() *Builder {
	b := &Builder{tab: map[string]*Term{}}
	b.False = b.mk(&Term{op: OpConst, w: 0, val: 0})
	b.True = b.mk(&Term{op: OpConst, w: 0, val: 1})
	return b
}

func (b *Builder) key(t *Term) string {
	var sb strings.Builder
	sb.WriteByte(byte(t.op) + 'A')
	sb.WriteByte(t.w + '0')
	switch t.op {
	case OpConst:
		sb.WriteString(strconv.FormatUint(t.val, 16))
	case OpSym:
		sb.WriteString(t.name)
	default:
		if t.op == OpExtract || t.op == OpZExt || t.op == OpSExt || t.op == OpAdd {
			sb.WriteString(strconv.FormatUint(t.val, 16))
		}
		for _, c := range t.coefs {
			sb.WriteByte(';')
			sb.WriteString(strconv.FormatUint(c, 16))
		}
		for _, a := range t.args {
			sb.WriteByte(',')
			sb.WriteString(strconv.Itoa(a.id))
		}
	}
	return sb.String()
}

func (b *Builder) mk(t *Term) *Term {
	k := b.key(t)
	if e, ok := b.tab[k]; ok {
		return e
	}
	t.id = len(b.terms)
	if t.w > 0 {
		b.interval(t)
		b.signedInterval(t)
	}
	b.terms = append(b.terms, t)
	b.tab[k] = t
	return t
}

// interval computes a sound unsigned interval for a freshly made bit-vector term.
func (b *Builder) interval(t *Term) {
	m := mask(t.w)
	t.lo, t.hi = 0, m
	switch t.op {
	case OpConst:
		t.lo, t.hi = t.val, t.val
	case OpSym:
		// may be narrowed by SymBounded
	case OpIte:
		x, y := t.args[1], t.args[2]
		t.lo, t.hi = min64(x.lo, y.lo), max64(x.hi, y.hi)
	case OpAdd:
		// exact real-valued range of Σ c_i*x_i + k with signed coefficients
		lo, hi := new(big.Int), new(big.Int)
		half := m >> 1
		sgn := func(c uint64) *big.Int {
			if c > half {
				r := new(big.Int).SetUint64(m - c)
				r.Add(r, big.NewInt(1))
				return r.Neg(r)
			}
			return new(big.Int).SetUint64(c)
		}
		k := sgn(t.val)
		lo.Set(k)
		hi.Set(k)
		for i, a := range t.args {
			c := sgn(t.coefs[i])
			x1 := new(big.Int).Mul(c, new(big.Int).SetUint64(a.lo))
			x2 := new(big.Int).Mul(c, new(big.Int).SetUint64(a.hi))
			if x1.Cmp(x2) > 0 {
				x1, x2 = x2, x1
			}
			lo.Add(lo, x1)
			hi.Add(hi, x2)
		}
		if lo.Sign() >= 0 && hi.IsUint64() && hi.Uint64() <= m {
			t.lo, t.hi = lo.Uint64(), hi.Uint64()
		}
	case OpSub:
		x, y := t.args[0], t.args[1]
		if x.lo >= y.hi {
			t.lo, t.hi = x.lo-y.hi, x.hi-y.lo
		}
	case OpMul:
		x, y := t.args[0], t.args[1]
		h, l := bits.Mul64(x.hi, y.hi)
		if h == 0 && l <= m {
			t.lo, t.hi = x.lo*y.lo, l
		}
	case OpZExt:
		t.lo, t.hi = t.args[0].lo, t.args[0].hi
	case OpSExt:
		a := t.args[0]
		if a.hi <= mask(a.w)>>1 {
			t.lo, t.hi = a.lo, a.hi
		}
	case OpExtract:
		hiBit, loBit := uint8(t.val>>8), uint8(t.val&0xff)
		a := t.args[0]
		if loBit == 0 && a.hi <= mask(hiBit+1) {
			t.lo, t.hi = a.lo, a.hi
		}
	case OpBvAnd:
		t.hi = min64(t.args[0].hi, t.args[1].hi)
	case OpLShr:
		t.hi = t.args[0].hi
	case OpURem:
		if t.args[1].lo > 0 {
			t.hi = t.args[1].hi - 1
		}
		t.hi = min64(t.hi, t.args[0].hi)
	case OpUDiv:
		t.hi = t.args[0].hi
	}
}

func sMin(w uint8) int64 {
	if w >= 64 {
		return -1 << 63
	}
	return -(int64(1) << (w - 1))
}
func sMax(w uint8) int64 {
	if w >= 64 {
		return 1<<63 - 1
	}
	return int64(1)<<(w-1) - 1
}

// signedInterval computes a sound signed interval and reconciles it with the unsigned one.
func (b *Builder) signedInterval(t *Term) {
	w := t.w
	t.slo, t.shi = sMin(w), sMax(w)
	switch t.op {
	case OpConst:
		v := signExt(t.val, w)
		t.slo, t.shi = v, v
	case OpIte:
		x, y := t.args[1], t.args[2]
		t.slo, t.shi = x.slo, x.shi
		if y.slo < t.slo {
			t.slo = y.slo
		}
		if y.shi > t.shi {
			t.shi = y.shi
		}
	case OpSExt:
		t.slo, t.shi = t.args[0].slo, t.args[0].shi
	case OpAdd:
		lo, hi := new(big.Int), new(big.Int)
		k := big.NewInt(signExt(t.val, w))
		lo.Set(k)
		hi.Set(k)
		for i, a := range t.args {
			c := big.NewInt(signExt(t.coefs[i], w))
			x1 := new(big.Int).Mul(c, big.NewInt(a.slo))
			x2 := new(big.Int).Mul(c, big.NewInt(a.shi))
			if x1.Cmp(x2) > 0 {
				x1, x2 = x2, x1
			}
			lo.Add(lo, x1)
			hi.Add(hi, x2)
		}
		if lo.IsInt64() && hi.IsInt64() && lo.Int64() >= sMin(w) && hi.Int64() <= sMax(w) {
			t.slo, t.shi = lo.Int64(), hi.Int64()
		}
	}
	// unsigned interval entirely in the non-negative signed half
	if t.hi <= uint64(sMax(w)) {
		if int64(t.lo) > t.slo {
			t.slo = int64(t.lo)
		}
		if int64(t.hi) < t.shi {
			t.shi = int64(t.hi)
		}
	}
	// signed interval entirely non-negative narrows the unsigned one
	if t.slo >= 0 {
		if uint64(t.slo) > t.lo {
			t.lo = uint64(t.slo)
		}
		if uint64(t.shi) < t.hi {
			t.hi = uint64(t.shi)
		}
	}
}

// SymSigned declares a symbol whose signed value lies in [lo,hi] (the caller
// adds the matching constraint to the path condition).
func (b *Builder) SymSigned(name string, w uint8, lo, hi int64) *Term {
	t := b.Sym(name, w)
	if lo > t.slo {
		t.slo = lo
	}
	if hi < t.shi {
		t.shi = hi
	}
	if t.slo >= 0 {
		if uint64(t.slo) > t.lo {
			t.lo = uint64(t.slo)
		}
		if uint64(t.shi) < t.hi {
			t.hi = uint64(t.shi)
		}
	}
	return t
}

func min64(a, b uint64) uint64 {
	if a < b {
		return a
	}
	return b
}
func max64(a, b uint64) uint64 {
	if a > b {
		return a
	}
	return b
}

func (b *Builder) Bool(v bool) *Term {
	if v {
		return b.True
	}
	return b.False
}

func (b *Builder) BV(v uint64, w uint8) *Term {
	return b.mk(&Term{op: OpConst, w: w, val: v & mask(w)})
}

func (b *Builder) Sym(name string, w uint8) *Term {
	return b.mk(&Term{op: OpSym, w: w, name: name})
}

// SymBounded declares a bit-vector symbol whose unsigned value is known (by a
// constraint the caller adds to the path condition) to lie in [lo,hi].
func (b *Builder) SymBounded(name string, w uint8, lo, hi uint64) *Term {
	t := b.Sym(name, w)
	if t.lo < lo {
		t.lo = lo
	}
	if t.hi > hi {
		t.hi = hi
	}
	if t.hi <= uint64(sMax(w)) {
		if int64(t.lo) > t.slo {
			t.slo = int64(t.lo)
		}
		if int64(t.hi) < t.shi {
			t.shi = int64(t.hi)
		}
	}
	return t
}

func (b *Builder) Not(a *Term) *Term {
	if a.IsConst() {
		return b.Bool(a.val == 0)
	}
	if a.op == OpNot {
		return a.args[0]
	}
	return b.mk(&Term{op: OpNot, args: []*Term{a}})
}

func (b *Builder) And(xs ...*Term) *Term {
	var out []*Term
	seen := map[int]bool{}
	for _, x := range xs {
		if x.IsFalse() {
			return b.False
		}
		if x.IsTrue() {
			continue
		}
		if x.op == OpAnd {
			for _, y := range x.args {
				if !seen[y.id] {
					seen[y.id] = true
					out = append(out, y)
				}
			}
			continue
		}
		if !seen[x.id] {
			seen[x.id] = true
			out = append(out, x)
		}
	}
	for _, x := range out {
		if x.op == OpNot && seen[x.args[0].id] {
			return b.False
		}
	}
	if len(out) == 0 {
		return b.True
	}
	if len(out) == 1 {
		return out[0]
	}
	return b.mk(&Term{op: OpAnd, args: out})
}

func (b *Builder) Or(xs ...*Term) *Term {
	var out []*Term
	seen := map[int]bool{}
	for _, x := range xs {
		if x.IsTrue() {
			return b.True
		}
		if x.IsFalse() {
			continue
		}
		if x.op == OpOr {
			for _, y := range x.args {
				if !seen[y.id] {
					seen[y.id] = true
					out = append(out, y)
				}
			}
			continue
		}
		if !seen[x.id] {
			seen[x.id] = true
			out = append(out, x)
		}
	}
	for _, x := range out {
		if x.op == OpNot && seen[x.args[0].id] {
			return b.True
		}
	}
	if len(out) == 0 {
		return b.False
	}
	if len(out) == 1 {
		return out[0]
	}
	return b.mk(&Term{op: OpOr, args: out})
}

func (b *Builder) Implies(a, c *Term) *Term { return b.Or(b.Not(a), c) }

func (b *Builder) Ite(c, x, y *Term) *Term {
	if c.IsTrue() {
		return x
	}
	if c.IsFalse() {
		return y
	}
	if x == y {
		return x
	}
	if x.w != y.w {
		panic(fmt.Sprintf("ite width mismatch %d %d", x.w, y.w))
	}
	if x.w == 0 {
		if x.IsTrue() && y.IsFalse() {
			return c
		}
		if x.IsFalse() && y.IsTrue() {
			return b.Not(c)
		}
		if x.IsTrue() {
			return b.Or(c, y)
		}
		if x.IsFalse() {
			return b.And(b.Not(c), y)
		}
		if y.IsTrue() {
			return b.Or(b.Not(c), x)
		}
		if y.IsFalse() {
			return b.And(c, x)
		}
	}
	if c.op == OpNot {
		return b.Ite(c.args[0], y, x)
	}
	// ite(c, x, ite(c, _, z)) = ite(c, x, z)
	if y.op == OpIte && y.args[0] == c {
		return b.Ite(c, x, y.args[2])
	}
	if x.op == OpIte && x.args[0] == c {
		return b.Ite(c, x.args[1], y)
	}
	return b.mk(&Term{op: OpIte, w: x.w, args: []*Term{c, x, y}})
}

func (b *Builder) Eq(x, y *Term) *Term {
	if x == y {
		return b.True
	}
	if !x.IsConst() && !y.IsConst() || x.op == OpIte || y.op == OpIte {
		k := [2]int{x.id, y.id}
		if x.id > y.id {
			k = [2]int{y.id, x.id}
		}
		if b.eqMemo == nil {
			b.eqMemo = map[[2]int]*Term{}
		}
		if r, ok := b.eqMemo[k]; ok {
			return r
		}
		r := b.eq0(x, y)
		b.eqMemo[k] = r
		return r
	}
	return b.eq0(x, y)
}

func (b *Builder) eq0(x, y *Term) *Term {
	if x == y {
		return b.True
	}
	if x.w != y.w {
		panic(fmt.Sprintf("eq width mismatch %d %d (%s vs %s)", x.w, y.w, b.Show(x), b.Show(y)))
	}
	if x.IsConst() && y.IsConst() {
		return b.Bool(x.val == y.val)
	}
	if x.w == 0 {
		if x.IsConst() {
			x, y = y, x
		}
		if y.IsTrue() {
			return x
		}
		if y.IsFalse() {
			return b.Not(x)
		}
	} else {
		if x.hi < y.lo || y.hi < x.lo {
			return b.False
		}
		if x.IsConst() {
			x, y = y, x
		}
		// eq(ite(c,k1,k2), k) with constants
		if y.IsConst() && x.op == OpIte {
			a1, a2 := x.args[1], x.args[2]
			if (a1.IsConst() || a1.op == OpIte) && (a2.IsConst() || a2.op == OpIte) {
				return b.Ite(x.args[0], b.Eq(a1, y), b.Eq(a2, y))
			}
		}
		if y.IsConst() && x.op == OpZExt {
			a := x.args[0]
			if y.val > mask(a.w) {
				return b.False
			}
			return b.Eq(a, b.BV(y.val, a.w))
		}
	}
	if x.w > 0 && (x.op == OpAdd || y.op == OpAdd) {
		lx, ly := b.linOf(x), b.linOf(y)
		d := b.linComb(lx, ly, mask(x.w))
		if len(d.atoms) == 0 {
			return b.Bool(d.k == 0)
		}
		if len(d.atoms) < len(lx.atoms)+len(ly.atoms) || (lx.k != 0 && ly.k != 0) {
			// something cancelled: rebuild as pos = neg
			m := mask(x.w)
			half := m >> 1
			pos, neg := lin{w: x.w}, lin{w: x.w}
			for i, a := range d.atoms {
				if d.coefs[i] > half {
					neg.atoms = append(neg.atoms, a)
					neg.coefs = append(neg.coefs, (-d.coefs[i])&m)
				} else {
					pos.atoms = append(pos.atoms, a)
					pos.coefs = append(pos.coefs, d.coefs[i])
				}
			}
			if d.k > half {
				neg.k = (-d.k) & m
			} else {
				pos.k = d.k
			}
			nx, ny := b.fromLin(pos), b.fromLin(neg)
			if nx != x || ny != y {
				if !(nx == y && ny == x) {
					return b.Eq(nx, ny)
				}
			}
		}
	}
	if x.w > narrowW {
		if nx, ok := b.narrow(x); ok {
			if ny, ok2 := b.narrow(y); ok2 {
				return b.Eq(nx, ny)
			}
		}
	}
	if x.id > y.id {
		x, y = y, x
	}
	return b.mk(&Term{op: OpEq, args: []*Term{x, y}})
}

func (b *Builder) Ne(x, y *Term) *Term { return b.Not(b.Eq(x, y)) }

func (b *Builder) bin(op Op, x, y *Term) *Term {
	if x.w != y.w {
		panic(fmt.Sprintf("binop %s width mismatch %d %d", opNames[op], x.w, y.w))
	}
	w := x.w
	m := mask(w)
	if x.IsConst() && y.IsConst() {
		a, c := x.val, y.val
		var r uint64
		switch op {
		case OpAdd:
			r = a + c
		case OpSub:
			r = a - c
		case OpMul:
			r = a * c
		case OpUDiv:
			if c == 0 {
				r = m
			} else {
				r = a / c
			}
		case OpURem:
			if c == 0 {
				r = a
			} else {
				r = a % c
			}
		case OpSDiv:
			sa, sc := signExt(a, w), signExt(c, w)
			if sc == 0 {
				if sa >= 0 {
					r = m
				} else {
					r = 1
				}
			} else if sc == -1 {
				r = uint64(-sa)
			} else {
				r = uint64(sa / sc)
			}
		case OpSRem:
			sa, sc := signExt(a, w), signExt(c, w)
			if sc == 0 {
				r = a
			} else if sc == -1 {
				r = 0
			} else {
				r = uint64(sa % sc)
			}
		case OpBvAnd:
			r = a & c
		case OpBvOr:
			r = a | c
		case OpBvXor:
			r = a ^ c
		case OpShl:
			if c >= uint64(w) {
				r = 0
			} else {
				r = a << c
			}
		case OpLShr:
			if c >= uint64(w) {
				r = 0
			} else {
				r = a >> c
			}
		case OpAShr:
			sa := signExt(a, w)
			if c >= uint64(w) {
				c = uint64(w) - 1
			}
			r = uint64(sa >> c)
		}
		return b.BV(r, w)
	}
	switch op {
	case OpAdd:
		if x.IsConst() {
			x, y = y, x
		}
		if y.IsConst() && y.val == 0 {
			return x
		}
		// (a + k1) + k2
		if y.IsConst() && x.op == OpAdd && x.args[1].IsConst() {
			return b.bin(OpAdd, x.args[0], b.BV(x.args[1].val+y.val, w))
		}
	case OpSub:
		if y.IsConst() && y.val == 0 {
			return x
		}
		if x == y {
			return b.BV(0, w)
		}
		if y.IsConst() {
			return b.bin(OpAdd, x, b.BV(-y.val, w))
		}
		// (a + k) - a = k
		if x.op == OpAdd && x.args[0] == y {
			return x.args[1]
		}
	case OpMul:
		if x.IsConst() {
			x, y = y, x
		}
		if y.IsConst() && y.val == 1 {
			return x
		}
		if y.IsConst() && y.val == 0 {
			return y
		}
	case OpBvAnd:
		if x.IsConst() {
			x, y = y, x
		}
		if y.IsConst() && y.val == 0 {
			return y
		}
		if y.IsConst() && y.val == m {
			return x
		}
		if x == y {
			return x
		}
	case OpBvOr:
		if x.IsConst() {
			x, y = y, x
		}
		if y.IsConst() && y.val == 0 {
			return x
		}
		if x == y {
			return x
		}
	case OpBvXor:
		if x.IsConst() {
			x, y = y, x
		}
		if y.IsConst() && y.val == 0 {
			return x
		}
	case OpShl, OpLShr, OpAShr:
		if y.IsConst() && y.val == 0 {
			return x
		}
	}
	return b.mk(&Term{op: op, w: w, args: []*Term{x, y}})
}

// ---- linear normal form for + - neg and multiplication by constants ----

type lin struct {
	atoms []*Term
	coefs []uint64
	k     uint64
	w     uint8
}

func (b *Builder) linOf(t *Term) lin {
	switch {
	case t.op == OpConst:
		return lin{k: t.val, w: t.w}
	case t.op == OpAdd:
		return lin{atoms: t.args, coefs: t.coefs, k: t.val, w: t.w}
	}
	return lin{atoms: []*Term{t}, coefs: []uint64{1}, w: t.w}
}

// linComb returns x + s*y.
func (b *Builder) linComb(x, y lin, s uint64) lin {
	m := mask(x.w)
	out := lin{w: x.w, k: (x.k + s*y.k) & m}
	i, j := 0, 0
	for i < len(x.atoms) || j < len(y.atoms) {
		switch {
		case j >= len(y.atoms) || (i < len(x.atoms) && x.atoms[i].id < y.atoms[j].id):
			out.atoms = append(out.atoms, x.atoms[i])
			out.coefs = append(out.coefs, x.coefs[i])
			i++
		case i >= len(x.atoms) || y.atoms[j].id < x.atoms[i].id:
			c := (s * y.coefs[j]) & m
			if c != 0 {
				out.atoms = append(out.atoms, y.atoms[j])
				out.coefs = append(out.coefs, c)
			}
			j++
		default:
			c := (x.coefs[i] + s*y.coefs[j]) & m
			if c != 0 {
				out.atoms = append(out.atoms, x.atoms[i])
				out.coefs = append(out.coefs, c)
			}
			i++
			j++
		}
	}
	return out
}

func (b *Builder) fromLin(l lin) *Term {
	if len(l.atoms) == 0 {
		return b.BV(l.k, l.w)
	}
	if len(l.atoms) == 1 && l.coefs[0] == 1 && l.k == 0 {
		return l.atoms[0]
	}
	if !sort.SliceIsSorted(l.atoms, func(i, j int) bool { return l.atoms[i].id < l.atoms[j].id }) {
		panic("fromLin: unsorted")
	}
	return b.mk(&Term{op: OpAdd, w: l.w, args: l.atoms, coefs: l.coefs, val: l.k})
}

func (b *Builder) Add(x, y *Term) *Term {
	if x.w != y.w {
		panic(fmt.Sprintf("bvadd width mismatch %d %d", x.w, y.w))
	}
	return b.fromLin(b.linComb(b.linOf(x), b.linOf(y), 1))
}

func (b *Builder) Sub(x, y *Term) *Term {
	if x.w != y.w {
		panic(fmt.Sprintf("bvsub width mismatch %d %d", x.w, y.w))
	}
	return b.fromLin(b.linComb(b.linOf(x), b.linOf(y), mask(x.w)))
}

func (b *Builder) Mul(x, y *Term) *Term {
	if x.w != y.w {
		panic(fmt.Sprintf("bvmul width mismatch %d %d", x.w, y.w))
	}
	if x.IsConst() {
		x, y = y, x
	}
	if y.IsConst() {
		return b.fromLin(b.linComb(lin{w: x.w}, b.linOf(x), y.val))
	}
	return b.bin(OpMul, x, y)
}
func (b *Builder) UDiv(x, y *Term) *Term { return b.bin(OpUDiv, x, y) }
func (b *Builder) URem(x, y *Term) *Term { return b.bin(OpURem, x, y) }
func (b *Builder) SDiv(x, y *Term) *Term { return b.bin(OpSDiv, x, y) }
func (b *Builder) SRem(x, y *Term) *Term { return b.bin(OpSRem, x, y) }
func (b *Builder) BvAnd(x, y *Term) *Term {
	return b.bin(OpBvAnd, x, y)
}
func (b *Builder) BvOr(x, y *Term) *Term  { return b.bin(OpBvOr, x, y) }
func (b *Builder) BvXor(x, y *Term) *Term { return b.bin(OpBvXor, x, y) }
func (b *Builder) Shl(x, y *Term) *Term   { return b.bin(OpShl, x, y) }
func (b *Builder) LShr(x, y *Term) *Term  { return b.bin(OpLShr, x, y) }
func (b *Builder) AShr(x, y *Term) *Term  { return b.bin(OpAShr, x, y) }

func (b *Builder) Neg(x *Term) *Term {
	return b.fromLin(b.linComb(lin{w: x.w}, b.linOf(x), mask(x.w)))
}

func (b *Builder) BvNot(x *Term) *Term {
	if x.IsConst() {
		return b.BV(^x.val, x.w)
	}
	return b.mk(&Term{op: OpBvNot, w: x.w, args: []*Term{x}})
}

func (b *Builder) cmp(op Op, x, y *Term) *Term {
	if x.w != y.w {
		panic(fmt.Sprintf("cmp width mismatch %d %d", x.w, y.w))
	}
	w := x.w
	if x.IsConst() && y.IsConst() {
		switch op {
		case OpULt:
			return b.Bool(x.val < y.val)
		case OpULe:
			return b.Bool(x.val <= y.val)
		case OpSLt:
			return b.Bool(signExt(x.val, w) < signExt(y.val, w))
		case OpSLe:
			return b.Bool(signExt(x.val, w) <= signExt(y.val, w))
		}
	}
	if x == y {
		return b.Bool(op == OpULe || op == OpSLe)
	}
	half := mask(w) >> 1
	// signed comparison of provably non-negative values = unsigned comparison
	if (op == OpSLt || op == OpSLe) && x.hi <= half && y.hi <= half {
		if op == OpSLt {
			op = OpULt
		} else {
			op = OpULe
		}
	}
	switch op {
	case OpULt:
		if x.hi < y.lo {
			return b.True
		}
		if x.lo >= y.hi {
			return b.False
		}
	case OpULe:
		if x.hi <= y.lo {
			return b.True
		}
		if x.lo > y.hi {
			return b.False
		}
	case OpSLt, OpSLe:
		// one side provably non-negative, other side provably negative
		if x.hi <= half && y.lo > half {
			return b.False
		}
		if x.lo > half && y.hi <= half {
			return b.True
		}
		if op == OpSLt {
			if x.shi < y.slo {
				return b.True
			}
			if x.slo >= y.shi {
				return b.False
			}
		} else {
			if x.shi <= y.slo {
				return b.True
			}
			if x.slo > y.shi {
				return b.False
			}
		}
	}
	return b.mk(&Term{op: op, args: []*Term{x, y}})
}

// RawULe / RawSLe build the comparison without interval folding; they are used
// to state the very bound that a symbol's declared interval relies on.
func (b *Builder) RawULe(x, y *Term) *Term { return b.mk(&Term{op: OpULe, args: []*Term{x, y}}) }
func (b *Builder) RawSLe(x, y *Term) *Term { return b.mk(&Term{op: OpSLe, args: []*Term{x, y}}) }

const narrowW = 16

// narrow returns a narrowW-bit term with the same (unsigned) value as the
// 64-bit term t when t provably fits and is built from zero-extensions,
// small constants, sums with non-negative coefficients and ites thereof.
func (b *Builder) narrow(t *Term) (*Term, bool) {
	if t.w <= narrowW || t.hi > mask(narrowW) {
		return nil, false
	}
	if b.nmemo == nil {
		b.nmemo = map[int]*Term{}
	}
	if r, ok := b.nmemo[t.id]; ok {
		return r, r != nil
	}
	var res *Term
	switch t.op {
	case OpConst:
		res = b.BV(t.val, narrowW)
	case OpZExt:
		a := t.args[0]
		if a.w <= narrowW {
			res = b.ZExt(a, narrowW)
		} else if n, ok := b.narrow(a); ok {
			res = n
		}
	case OpIte:
		x, okx := b.narrow(t.args[1])
		y, oky := b.narrow(t.args[2])
		if okx && oky {
			res = b.Ite(t.args[0], x, y)
		}
	case OpAdd:
		half := mask(t.w) >> 1
		ok := t.val <= half
		l := lin{w: narrowW, k: t.val}
		type na struct {
			t *Term
			c uint64
		}
		var parts []na
		for i, a := range t.args {
			if !ok {
				break
			}
			c := t.coefs[i]
			if c > half || c > mask(narrowW) {
				ok = false
				break
			}
			n, okn := b.narrow(a)
			if !okn {
				ok = false
				break
			}
			parts = append(parts, na{n, c})
		}
		if ok {
			acc := b.BV(l.k, narrowW)
			for _, p := range parts {
				acc = b.Add(acc, b.Mul(p.t, b.BV(p.c, narrowW)))
			}
			res = acc
		}
	}
	b.nmemo[t.id] = res
	return res, res != nil
}

func (b *Builder) ULt(x, y *Term) *Term { return b.cmp(OpULt, x, y) }
func (b *Builder) ULe(x, y *Term) *Term { return b.cmp(OpULe, x, y) }
func (b *Builder) SLt(x, y *Term) *Term { return b.cmp(OpSLt, x, y) }
func (b *Builder) SLe(x, y *Term) *Term { return b.cmp(OpSLe, x, y) }

func (b *Builder) Extract(x *Term, hi, lo uint8) *Term {
	w := hi - lo + 1
	if w == x.w {
		return x
	}
	if x.IsConst() {
		return b.BV(x.val>>lo, w)
	}
	if x.op == OpZExt && lo == 0 {
		a := x.args[0]
		if w == a.w {
			return a
		}
		if w < a.w {
			return b.Extract(a, hi, 0)
		}
		return b.ZExt(a, w)
	}
	if x.op == OpSExt && lo == 0 {
		a := x.args[0]
		if w == a.w {
			return a
		}
		if w < a.w {
			return b.Extract(a, hi, 0)
		}
	}
	if x.op == OpIte && lo == 0 {
		if x.args[1].IsConst() || x.args[2].IsConst() {
			return b.Ite(x.args[0], b.Extract(x.args[1], hi, lo), b.Extract(x.args[2], hi, lo))
		}
	}
	return b.mk(&Term{op: OpExtract, w: w, args: []*Term{x}, val: uint64(hi)<<8 | uint64(lo)})
}

// ZExt extends x to total width w.
func (b *Builder) ZExt(x *Term, w uint8) *Term {
	if w == x.w {
		return x
	}
	if w < x.w {
		return b.Extract(x, w-1, 0)
	}
	if x.IsConst() {
		return b.BV(x.val, w)
	}
	if x.op == OpZExt {
		return b.ZExt(x.args[0], w)
	}
	if x.op == OpIte && (x.args[1].IsConst() || x.args[2].IsConst()) {
		return b.Ite(x.args[0], b.ZExt(x.args[1], w), b.ZExt(x.args[2], w))
	}
	return b.mk(&Term{op: OpZExt, w: w, args: []*Term{x}, val: uint64(w - x.w)})
}

func (b *Builder) SExt(x *Term, w uint8) *Term {
	if w == x.w {
		return x
	}
	if w < x.w {
		return b.Extract(x, w-1, 0)
	}
	if x.IsConst() {
		return b.BV(uint64(signExt(x.val, x.w)), w)
	}
	if x.hi <= mask(x.w)>>1 {
		return b.ZExt(x, w)
	}
	return b.mk(&Term{op: OpSExt, w: w, args: []*Term{x}, val: uint64(w - x.w)})
}

// ClampULe returns min(t, max) (unsigned) with the interval narrowed accordingly.
func (b *Builder) ClampULe(t *Term, max uint64) *Term {
	if t.hi <= max {
		return t
	}
	r := b.Ite(b.ULe(t, b.BV(max, t.w)), t, b.BV(max, t.w))
	if r.hi > max {
		r.hi = max
	}
	if r.hi <= uint64(sMax(r.w)) {
		if int64(r.lo) > r.slo {
			r.slo = int64(r.lo)
		}
		if int64(r.hi) < r.shi {
			r.shi = int64(r.hi)
		}
	}
	return r
}

func (b *Builder) Concat(hi, lo *Term) *Term {
	w := hi.w + lo.w
	if hi.IsConst() && lo.IsConst() {
		return b.BV(hi.val<<lo.w|lo.val, w)
	}
	if hi.IsConst() && hi.val == 0 {
		return b.ZExt(lo, w)
	}
	return b.mk(&Term{op: OpConcat, w: w, args: []*Term{hi, lo}})
}

// ---- SMT-LIB printing ----

func sortStr(w uint8) string {
	if w == 0 {
		return "Bool"
	}
	return fmt.Sprintf("(_ BitVec %d)", w)
}

func (t *Term) ref() string {
	switch t.op {
	case OpConst:
		if t.w == 0 {
			if t.val == 1 {
				return "true"
			}
			return "false"
		}
		if t.w%4 == 0 {
			return fmt.Sprintf("#x%0*x", int(t.w/4), t.val)
		}
		return fmt.Sprintf("#b%0*b", int(t.w), t.val)
	case OpSym:
		return t.name
	}
	return "t" + strconv.Itoa(t.id)
}

// def returns the define-fun line for a non-leaf term.
func (t *Term) sumExpr() string {
	m := mask(t.w)
	half := m >> 1
	cst := func(v uint64) string { return (&Term{op: OpConst, w: t.w, val: v & m}).ref() }
	type piece struct {
		neg bool
		s   string
	}
	var ps []piece
	for i, a := range t.args {
		c := t.coefs[i]
		switch {
		case c == 1:
			ps = append(ps, piece{false, a.ref()})
		case c == m:
			ps = append(ps, piece{true, a.ref()})
		case c > half:
			ps = append(ps, piece{true, "(bvmul " + cst(-c) + " " + a.ref() + ")"})
		default:
			ps = append(ps, piece{false, "(bvmul " + cst(c) + " " + a.ref() + ")"})
		}
	}
	if t.val != 0 {
		if t.val > half {
			ps = append(ps, piece{true, cst(-t.val)})
		} else {
			ps = append(ps, piece{false, cst(t.val)})
		}
	}
	// start with a positive piece when there is one
	start := -1
	for i, p := range ps {
		if !p.neg {
			start = i
			break
		}
	}
	var expr string
	if start < 0 {
		expr = "(bvneg " + ps[0].s + ")"
		start = 0
	} else {
		expr = ps[start].s
	}
	for i, p := range ps {
		if i == start {
			continue
		}
		if p.neg {
			expr = "(bvsub " + expr + " " + p.s + ")"
		} else {
			expr = "(bvadd " + expr + " " + p.s + ")"
		}
	}
	return expr
}

func (t *Term) def() string {
	if t.op == OpAdd {
		return "(define-fun " + t.ref() + " () " + sortStr(t.w) + " " + t.sumExpr() + ")"
	}
	var sb strings.Builder
	sb.WriteString("(define-fun ")
	sb.WriteString(t.ref())
	sb.WriteString(" () ")
	sb.WriteString(sortStr(t.w))
	sb.WriteString(" (")
	switch t.op {
	case OpExtract:
		fmt.Fprintf(&sb, "(_ extract %d %d)", t.val>>8, t.val&0xff)
	case OpZExt:
		fmt.Fprintf(&sb, "(_ zero_extend %d)", t.val)
	case OpSExt:
		fmt.Fprintf(&sb, "(_ sign_extend %d)", t.val)
	default:
		sb.WriteString(opNames[t.op])
	}
	for _, a := range t.args {
		sb.WriteByte(' ')
		sb.WriteString(a.ref())
	}
	sb.WriteString("))")
	return sb.String()
}

// Show renders a term as a nested expression (for diagnostics; depth-limited).
func (b *Builder) Show(t *Term) string { return showTerm(t, 6) }

func showTerm(t *Term, depth int) string {
	switch t.op {
	case OpConst, OpSym:
		return t.ref()
	}
	if depth == 0 {
		return "…"
	}
	var sb strings.Builder
	sb.WriteByte('(')
	if t.op == OpAdd {
		sb.WriteString("sum")
		for i, a := range t.args {
			fmt.Fprintf(&sb, " %d*%s", int64(signExt(t.coefs[i], t.w)), showTerm(a, depth-1))
		}
		fmt.Fprintf(&sb, " %d)", int64(signExt(t.val, t.w)))
		return sb.String()
	}
	switch t.op {
	case OpExtract:
		fmt.Fprintf(&sb, "extract[%d:%d]", t.val>>8, t.val&0xff)
	case OpZExt:
		sb.WriteString("zext")
	case OpSExt:
		sb.WriteString("sext")
	default:
		sb.WriteString(opNames[t.op])
	}
	for _, a := range t.args {
		sb.WriteByte(' ')
		sb.WriteString(showTerm(a, depth-1))
	}
	sb.WriteByte(')')
	return sb.String()
}

// eval evaluates t under an assignment of symbols (missing symbols = 0).
func evalTerm(t *Term, env map[string]uint64, memo map[int]uint64) uint64 {
	if v, ok := memo[t.id]; ok {
		return v
	}
	a := func(i int) uint64 { return evalTerm(t.args[i], env, memo) }
	var r uint64
	m := mask(t.w)
	bo := func(x bool) uint64 {
		if x {
			return 1
		}
		return 0
	}
	switch t.op {
	case OpConst:
		r = t.val
	case OpSym:
		r = env[t.name]
	case OpNot:
		r = 1 - a(0)
	case OpAnd:
		r = 1
		for i := range t.args {
			if a(i) == 0 {
				r = 0
				break
			}
		}
	case OpOr:
		r = 0
		for i := range t.args {
			if a(i) == 1 {
				r = 1
				break
			}
		}
	case OpIte:
		if a(0) == 1 {
			r = a(1)
		} else {
			r = a(2)
		}
	case OpEq:
		r = bo(a(0) == a(1))
	case OpULt:
		r = bo(a(0) < a(1))
	case OpULe:
		r = bo(a(0) <= a(1))
	case OpSLt:
		r = bo(signExt(a(0), t.args[0].w) < signExt(a(1), t.args[0].w))
	case OpSLe:
		r = bo(signExt(a(0), t.args[0].w) <= signExt(a(1), t.args[0].w))
	case OpAdd:
		r = t.val
		for i := range t.args {
			r += t.coefs[i] * a(i)
		}
		r &= m
	case OpNeg:
		r = (-a(0)) & m
	case OpBvNot:
		r = (^a(0)) & m
	case OpExtract:
		r = (a(0) >> (t.val & 0xff)) & m
	case OpZExt:
		r = a(0)
	case OpSExt:
		r = uint64(signExt(a(0), t.args[0].w)) & m
	case OpConcat:
		r = a(0)<<t.args[1].w | a(1)
	default:
		// binary arithmetic: reuse folding through a throw-away computation
		x, y := a(0), a(1)
		w := t.w
		switch t.op {
		case OpAdd:
			r = x + y
		case OpSub:
			r = x - y
		case OpMul:
			r = x * y
		case OpUDiv:
			if y == 0 {
				r = m
			} else {
				r = x / y
			}
		case OpURem:
			if y == 0 {
				r = x
			} else {
				r = x % y
			}
		case OpSDiv:
			sx, sy := signExt(x, w), signExt(y, w)
			if sy == 0 {
				if sx >= 0 {
					r = m
				} else {
					r = 1
				}
			} else if sy == -1 {
				r = uint64(-sx)
			} else {
				r = uint64(sx / sy)
			}
		case OpSRem:
			sx, sy := signExt(x, w), signExt(y, w)
			if sy == 0 {
				r = x
			} else if sy == -1 {
				r = 0
			} else {
				r = uint64(sx % sy)
			}
		case OpBvAnd:
			r = x & y
		case OpBvOr:
			r = x | y
		case OpBvXor:
			r = x ^ y
		case OpShl:
			if y >= uint64(w) {
				r = 0
			} else {
				r = x << y
			}
		case OpLShr:
			if y >= uint64(w) {
				r = 0
			} else {
				r = x >> y
			}
		case OpAShr:
			if y >= uint64(w) {
				y = uint64(w) - 1
			}
			r = uint64(signExt(x, w) >> y)
		}
		r &= m
	}
	memo[t.id] = r
	return r
}
