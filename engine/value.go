package main

import (
	"fmt"
	"go/types"

	"golang.org/x/tools/go/ssa"
)

// Value is one of the concrete-structure / symbolic-leaf value kinds below.
type Value interface{}

type (
	// Sc is a scalar: bool, every integer kind, float (opaque BV64), unsafe.Pointer-free.
	Sc struct{ T *Term }

	// PtrV is a pointer to (a sub-cell of) a heap object.  obj==nil is the nil pointer.
	PtrV struct {
		obj  *Obj
		path []PathElem
	}

	// StructV and ArrayV are mutable cell vectors; they are deep-copied on load/store.
	StructV struct{ F []Value }
	ArrayV  struct{ E []Value }

	// SliceV has concrete geometry.  arr==nil is the nil slice.
	SliceV struct {
		arr           *Obj // object holding *ArrayV
		off, len, cap int
	}

	// BytesV is a []byte that is an immutable view of a string value.
	BytesV struct {
		S   *Str
		Nil bool
	}

	MapV struct{ m *MapObj } // m==nil is the nil map

	IfaceV struct {
		T types.Type // nil = nil interface
		V Value
	}

	FuncV struct {
		Fn       *ssa.Function
		Bindings []Value
		Builtin  string      // name of an engine-implemented function (bound method on a model object)
		Recv     Value       // receiver for Builtin
		Nil      bool
	}

	TupleV struct{ E []Value }

	// TimeV is the abstract time.Time (DESIGN §3.6).
	TimeV struct {
		Kind int   // 0 zero, 1 nanos (v = unix nanoseconds), 2 secs (v = unix seconds)
		V    *Term // BV64
		Z    *Term // optional (Kind != zero): when it holds, the value is the zero time after all
	}

	// OpaqueV is a library object that is only passed around or handled by intrinsics.
	OpaqueV struct {
		Tag  string
		Data interface{}
	}

	ChanV struct{ c *ChanObj }
)

const (
	TimeZero = iota
	TimeNanos
	TimeSecs
)

type PathElem struct {
	idx int
	sym *Term // non-nil: symbolic array index (BV64), idx unused; n = array length
	n   int
}

type Obj struct {
	id   int
	val  Value
	typ  types.Type
	site string // allocation site (for C20 and diagnostics)
	heap bool
	// C20: operation that allocated the object, and whether a pointer to it has been stored into shared memory since
	allocOp   string
	published bool
}

type ChanObj struct {
	closed bool
	buf    []Value
	cap    int
	id     int
}

func (p PtrV) IsNil() bool { return p.obj == nil }

func isNamed(t types.Type, pkg, name string) bool {
	n, ok := t.(*types.Named)
	if !ok {
		return false
	}
	o := n.Obj()
	return o.Name() == name && o.Pkg() != nil && o.Pkg().Path() == pkg
}

func intWidth(t types.Type) (w uint8, signed bool, ok bool) {
	b, isb := t.Underlying().(*types.Basic)
	if !isb {
		return 0, false, false
	}
	switch b.Kind() {
	case types.Int8:
		return 8, true, true
	case types.Int16:
		return 16, true, true
	case types.Int32, types.UntypedRune:
		return 32, true, true
	case types.Int64, types.Int, types.UntypedInt:
		return 64, true, true
	case types.Uint8:
		return 8, false, true
	case types.Uint16:
		return 16, false, true
	case types.Uint32:
		return 32, false, true
	case types.Uint64, types.Uint, types.Uintptr:
		return 64, false, true
	}
	return 0, false, false
}

func isString(t types.Type) bool {
	b, ok := t.Underlying().(*types.Basic)
	return ok && b.Info()&types.IsString != 0
}

func isBoolT(t types.Type) bool {
	b, ok := t.Underlying().(*types.Basic)
	return ok && b.Info()&types.IsBoolean != 0
}

func isFloat(t types.Type) bool {
	b, ok := t.Underlying().(*types.Basic)
	return ok && b.Info()&types.IsFloat != 0
}

func isByteSlice(t types.Type) bool {
	s, ok := t.Underlying().(*types.Slice)
	if !ok {
		return false
	}
	b, ok := s.Elem().Underlying().(*types.Basic)
	return ok && b.Kind() == types.Uint8
}

// zero returns the zero value of a type.
func (in *Interp) zero(t types.Type) Value {
	if isNamed(t, "time", "Time") {
		return TimeV{Kind: TimeZero, V: in.b.BV(0, 64)}
	}
	if tag, ok := in.opaqueStructZero(t); ok {
		return tag
	}
	switch u := t.Underlying().(type) {
	case *types.Basic:
		switch {
		case u.Info()&types.IsBoolean != 0:
			return Sc{in.b.False}
		case u.Info()&types.IsString != 0:
			return in.str.Const("")
		case u.Info()&types.IsFloat != 0:
			return Sc{in.b.BV(0, 64)}
		case u.Kind() == types.UnsafePointer:
			return PtrV{}
		case u.Kind() == types.UntypedNil:
			return PtrV{}
		}
		if w, _, ok := intWidth(t); ok {
			return Sc{in.b.BV(0, w)}
		}
		panic(fmt.Sprintf("zero: basic %v", u))
	case *types.Pointer:
		return PtrV{}
	case *types.Struct:
		f := make([]Value, u.NumFields())
		for i := range f {
			f[i] = in.zero(u.Field(i).Type())
		}
		return &StructV{F: f}
	case *types.Array:
		e := make([]Value, u.Len())
		for i := range e {
			e[i] = in.zero(u.Elem())
		}
		return &ArrayV{E: e}
	case *types.Slice:
		return SliceV{}
	case *types.Map:
		return MapV{}
	case *types.Interface:
		return IfaceV{}
	case *types.Signature:
		return FuncV{Nil: true}
	case *types.Chan:
		return ChanV{}
	case *types.Tuple:
		e := make([]Value, u.Len())
		for i := range e {
			e[i] = in.zero(u.At(i).Type())
		}
		return TupleV{E: e}
	}
	panic(fmt.Sprintf("zero: unsupported type %v", t))
}

// copyVal deep-copies aggregate cells (structs/arrays); everything else is immutable.
func copyVal(v Value) Value {
	switch x := v.(type) {
	case *StructV:
		f := make([]Value, len(x.F))
		for i, e := range x.F {
			f[i] = copyVal(e)
		}
		return &StructV{F: f}
	case *ArrayV:
		e := make([]Value, len(x.E))
		for i, y := range x.E {
			e[i] = copyVal(y)
		}
		return &ArrayV{E: e}
	}
	return v
}
