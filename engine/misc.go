package main

import (
	"strings"
	"fmt"
	"os"
	"go/types"

	"golang.org/x/tools/go/ssa"
)

// ---- channels (minimal model: buffered FIFO, close, no blocking peers) ----

func (in *Interp) chanSend(cv Value, v Value, pos tokenPos) {
	c := cv.(ChanV)
	if c.c == nil {
		panic(&pathEnd{kind: "blocked", msg: "send on nil channel"})
	}
	if c.c.closed {
		in.goPanicf(pos, "chansend", "send on closed channel")
	}
	if in.env != nil && in.env.ChanSend != nil {
		if in.env.ChanSend(in, c.c, v, pos) {
			return
		}
	}
	if len(c.c.buf) >= c.c.cap && in.inGo == 0 {
		panic(&pathEnd{kind: "blocked", msg: "send on full channel at " + in.posStr(pos)})
	}
	c.c.buf = append(c.c.buf, copyVal(v))
}

func (in *Interp) chanRecv(cv Value, commaOk bool, t types.Type, pos tokenPos) Value {
	c := cv.(ChanV)
	var et types.Type
	if ct, ok := c2chan(t, commaOk); ok {
		et = ct
	}
	mk := func(v Value, ok bool) Value {
		if commaOk {
			return TupleV{E: []Value{v, Sc{in.b.Bool(ok)}}}
		}
		return v
	}
	if c.c == nil {
		panic(&pathEnd{kind: "blocked", msg: "receive on nil channel"})
	}
	if len(c.c.buf) > 0 {
		v := c.c.buf[0]
		c.c.buf = c.c.buf[1:]
		return mk(v, true)
	}
	if c.c.closed {
		return mk(in.zero(et), false)
	}
	panic(&pathEnd{kind: "blocked", msg: "receive on empty channel at " + in.posStr(pos)})
}

func c2chan(t types.Type, commaOk bool) (types.Type, bool) {
	if commaOk {
		if tp, ok := t.(*types.Tuple); ok {
			return tp.At(0).Type(), true
		}
	}
	return t, true
}

func (in *Interp) selectOp(fr *frame, x *ssa.Select) Value {
	b := in.b
	// ready cases: recv on closed or non-empty channel; send on channel with room
	type cand struct{ idx int }
	var ready []int
	for i, st := range x.States {
		c := fr.get(st.Chan).(ChanV)
		if c.c == nil {
			continue
		}
		if st.Dir == types.RecvOnly {
			if len(c.c.buf) > 0 || c.c.closed {
				ready = append(ready, i)
			}
		} else {
			if in.env != nil && in.env.ChanSend != nil {
				ready = append(ready, i)
			} else if !c.c.closed && (len(c.c.buf) < c.c.cap || in.inGo > 0) {
				ready = append(ready, i)
			}
		}
	}
	chosen := -1
	if len(ready) == 0 && x.Blocking && in.inGo == 0 && !in.inBlockedHook {
		// nothing can proceed: let the harness environment act once (e.g. the client disconnects)
		if bh, ok := in.ghost["env:blocked"]; ok {
			in.inBlockedHook = true
			in.callValue(fr, bh, nil, x.Pos())
			for _, c := range in.ctxNodes {
				in.ctxRefresh(fr, c, x.Pos()) // a cancelled parent closes the Done channels already handed out
			}
			defer func() { in.inBlockedHook = false }()
			return in.selectOp(fr, x)
		}
	}
	if len(ready) == 0 {
		if x.Blocking {
			panic(&pathEnd{kind: "blocked", msg: "select with no ready case at " + in.posStr(x.Pos())})
		}
	} else {
		// nondeterministic choice among ready cases
		conds := make([]*Term, len(ready))
		for i := range conds {
			conds[i] = b.True
		}
		k := 0
		if len(ready) > 1 {
			k = in.choose(conds)
		}
		chosen = ready[k]
	}
	res := []Value{Sc{b.BV(uint64(int64(chosen)), 64)}, Sc{b.False}}
	for i, st := range x.States {
		if st.Dir != types.RecvOnly {
			if i == chosen {
				in.chanSend(fr.get(st.Chan), fr.get(st.Send), x.Pos())
			}
			continue
		}
		et := st.Chan.Type().Underlying().(*types.Chan).Elem()
		if i == chosen {
			c := fr.get(st.Chan).(ChanV)
			if len(c.c.buf) > 0 {
				res = append(res, c.c.buf[0])
				c.c.buf = c.c.buf[1:]
				res[1] = Sc{b.True}
			} else {
				res = append(res, in.zero(et))
			}
		} else {
			res = append(res, in.zero(et))
		}
	}
	return TupleV{E: res}
}

func (in *Interp) goStmt(fr *frame, fn Value, args []Value, pos tokenPos) {
	if in.env != nil && in.env.Go != nil {
		if in.env.Go(in, fr, fn, args, pos) {
			return
		}
	}
	// Default model of `go f(x)`: f runs at once and to completion (one legal
	// schedule); what it sends on unbuffered channels is queued for the spawning
	// goroutine; when it blocks with nothing to wake it, it stays parked for the
	// rest of the path (its effects so far remain).
	in.note("go statement: callee runs synchronously at spawn; parked when it blocks")
	in.inGo++
	defer func() {
		in.inGo--
		if r := recover(); r != nil {
			if pe, ok := r.(*pathEnd); ok && pe.kind == "blocked" {
				return
			}
			panic(r)
		}
	}()
	in.callValue(fr, fn, args, pos)
}

// ---- access tracking (C20) ----

type Access struct {
	Key   string // object id + access path (identity of the memory location)
	Loc   string // human-readable description (allocation site and field path)
	Write bool
	Locks map[string]bool // held locks: name -> held in write mode
	Pos   string
	Op    string
}

func (in *Interp) heldLocks() map[string]bool {
	held := map[string]bool{}
	for _, ls := range in.lockTab {
		if ls.writer {
			held[ls.name] = true
		} else if ls.readers > 0 {
			held[ls.name] = false
		}
	}
	return held
}

// publish marks every object a value points to as reachable by other
// operations (it has been stored into shared memory or a map).
func (in *Interp) publish(v Value, depth int) {
	if depth > 4 {
		return
	}
	switch x := v.(type) {
	case PtrV:
		if x.obj != nil {
			x.obj.published = true
		}
	case SliceV:
		if x.arr != nil {
			x.arr.published = true
		}
	case *StructV:
		for _, f := range x.F {
			in.publish(f, depth+1)
		}
	case *ArrayV:
		for _, e := range x.E {
			in.publish(e, depth+1)
		}
	case IfaceV:
		in.publish(x.V, depth+1)
	case FuncV:
		for _, c := range x.Bindings {
			in.publish(c, depth+1)
		}
	}
}

func (in *Interp) recordAccess(p PtrV, write bool, pos tokenPos) {
	if p.obj == nil || !p.obj.heap || in.curOp == "" {
		return
	}
	// initialisation before publication: an object the running operation allocated
	// itself and has not yet stored into shared memory cannot be seen by another operation
	if p.obj.allocOp == in.curOp && !p.obj.published {
		return
	}
	if _, isOpaque := p.obj.val.(OpaqueV); isOpaque {
		return
	}
	// sync primitives are handled by the lock table, not as memory
	if p.obj.typ != nil && len(p.path) == 0 && isSyncType(p.obj.typ) {
		return
	}
	in.accesses = append(in.accesses, Access{Key: lockKey(p), Loc: in.describePtr(p), Write: write, Locks: in.heldLocks(), Pos: in.posStr(pos), Op: in.curOp})
}

func (in *Interp) recordMapAccess(m *MapObj, write bool, pos tokenPos) {
	if !in.trackAcc || m == nil || in.curOp == "" {
		return
	}
	in.accesses = append(in.accesses, Access{Key: fmt.Sprintf("map%d", m.id), Loc: "map " + m.kt.String() + "->" + m.vt.String() + " made at " + m.site, Write: write, Locks: in.heldLocks(), Pos: in.posStr(pos), Op: in.curOp})
}

// locksetConflict finds two accesses of different operations to the same
// location, at least one a write, that are not ordered by a common mutex
// (held by both, in write mode by every writer).
func (in *Interp) locksetConflict() (Access, Access, bool) {
	// group by object; two accesses touch the same memory when their paths are equal or
	// one is a prefix of the other (a struct access covers its fields)
	byKey := map[string][]int{}
	objOf := func(k string) string {
		if i := strings.IndexByte(k, '.'); i >= 0 {
			return k[:i]
		}
		return k
	}
	overlap := func(x, y string) bool {
		if len(x) > len(y) {
			x, y = y, x
		}
		return x == y || (strings.HasPrefix(y, x) && y[len(x)] == '.')
	}
	for i, a := range in.accesses {
		byKey[objOf(a.Key)] = append(byKey[objOf(a.Key)], i)
	}
	keys := make([]string, 0, len(byKey))
	for k := range byKey {
		keys = append(keys, k)
	}
	sortStrings(keys)
	for _, k := range keys {
		idx := byKey[k]
		for x := 0; x < len(idx); x++ {
			for y := x + 1; y < len(idx); y++ {
				a, c := in.accesses[idx[x]], in.accesses[idx[y]]
				if a.Op == c.Op || (!a.Write && !c.Write) || !overlap(a.Key, c.Key) {
					continue
				}
				protected := false
				for name, aw := range a.Locks {
					cw, ok := c.Locks[name]
					if !ok {
						continue
					}
					if (a.Write && !aw) || (c.Write && !cw) {
						continue // a writer holds it only in read mode
					}
					protected = true
				}
				if !protected {
					return a, c, true
				}
			}
		}
	}
	return Access{}, Access{}, false
}

func sortStrings(s []string) {
	for i := 1; i < len(s); i++ {
		for j := i; j > 0 && s[j] < s[j-1]; j-- {
			s[j], s[j-1] = s[j-1], s[j]
		}
	}
}

// ---- environment / ghost API for harnesses ----

func envAPI(name string) (IntrinsicFn, bool) {
	switch name {
	case "verifGhostSet":
		return func(in *Interp, _ *frame, _ *ssa.Function, args []Value, _ tokenPos) Value {
			k, _ := args[0].(*Str).Concrete()
			in.ghost[k] = args[1]
			return nil
		}, true
	case "verifGhostGet":
		return func(in *Interp, _ *frame, _ *ssa.Function, args []Value, _ tokenPos) Value {
			k, _ := args[0].(*Str).Concrete()
			if v, ok := in.ghost[k]; ok {
				return v
			}
			return IfaceV{}
		}, true
	}
	return nil, false
}

func registerMisc(e *Engine) {
	_ = fmt.Sprintf
	registerLevelDB(e)
	registerCodec(e)
	registerHTTP(e)
	registerCtxModel(e)
	registerBufr(e)
	registerAtomicValue(e)
	if os.Getenv("GOSYM_NOSUMMARIES") == "" {
		registerIRC(e)
	}
}

type ldbBatch struct {
	ops []ldbOp
}

type ldbOp struct {
	del bool
	key Value
	val Value
}
