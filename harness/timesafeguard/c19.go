package timesafeguard

import "time"

// C19: a node whose clock could be off by >= ElectionTimeout refuses to join.
//
// Per peer: local start instant a, true clock offset theta (peer - local),
// forward delay d1 >= 0, return delay d2 >= 0.  The measurement the code sees
// is Start = a, Result = a+d1+theta (peer's clock when it answered),
// End = a+d1+d2; a peer that did not answer has the zero Result.
func verifHarness_C19() {
	n := verifCase(verifParam("peers", 3) + 1)
	const lim = int64(1) << 59 // delays up to 2^59 ns (18 years); clock up to ±2^61 ns (year 2043); offset up to ±2^60 ns
	results := make([]timeResult, n)
	answered := make([]bool, n)
	thetas := make([]int64, n)
	wcds := make([]int64, n)
	for i := 0; i < n; i++ {
		a := nondetI64In(-4*lim, 4*lim)
		theta := nondetI64In(-4*lim, 4*lim)
		d1 := nondetI64In(0, lim)
		d2 := nondetI64In(0, lim)
		answered[i] = nondetBool()
		thetas[i] = theta
		r := timeResult{Start: time.Unix(0, a), End: time.Unix(0, a+d1+d2)}
		if answered[i] {
			r.Result = time.Unix(0, a+d1+theta)
		}
		results[i] = r
		// reference worst-case drift, computed independently of the code
		x := d1 + theta
		if x < 0 {
			x = -x
		}
		wcds[i] = x + d1 + d2
	}
	disabled := nondetBool()
	*DisableTimesafeguard = disabled

	err := synchronizedWithNetwork(results)

	timeout := int64(ElectionTimeout)
	if disabled {
		verifAssert(err == nil, "disabled-implies-nil")
	}
	if err == nil && !disabled {
		for i := 0; i < n; i++ {
			if answered[i] {
				th := thetas[i]
				if th < 0 {
					th = -th
				}
				verifAssert(th < timeout, "accepted-implies-offset-below-timeout")
				verifAssert(wcds[i] < timeout, "accepted-implies-drift-bound-below-timeout")
			}
		}
	}
	if err != nil {
		verifAssert(!disabled, "refusal-only-when-enabled")
		offender := false
		for i := 0; i < n; i++ {
			if answered[i] && wcds[i] >= timeout {
				offender = true
			}
		}
		verifAssert(offender, "refusal-names-an-offending-answering-peer")
	}
	// timeInSync alone agrees with the reference on the answering peers
	var nz []timeResult
	allOK := true
	for i := 0; i < n; i++ {
		if answered[i] {
			nz = append(nz, results[i])
			if wcds[i] >= timeout {
				allOK = false
			}
		}
	}
	verifAssert(timeInSync(nz) == allOK, "timeInSync-equals-reference")
}
