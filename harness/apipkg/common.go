package api

// Shared fakes for the API handlers (DESIGN.md §5.2): a recording response
// writer, request construction, raft stubs, and recording stubs for the
// handlers behind the authentication layer.

import (
	"net/http"
	"net/url"
	"time"

	"github.com/hashicorp/raft"
	"github.com/robustirc/robustirc/internal/ircserver"
	"github.com/robustirc/robustirc/internal/robust"
)

type vWriter struct {
	hdr    http.Header
	status int
	wrote  bool
}

func (w *vWriter) Header() http.Header { return w.hdr }
func (w *vWriter) Write(b []byte) (int, error) {
	if !w.wrote {
		w.wrote = true
		if w.status == 0 {
			w.status = 200
		}
	}
	return len(b), nil
}
func (w *vWriter) WriteHeader(code int) {
	if w.status == 0 {
		w.status = code
	}
	w.wrote = true
}

// what happened behind the authentication layer
var (
	vLeaf        string    // name of the handler reached ("" = none)
	vLeafSession robust.Id // session the leaf was reached for
	vProxied     bool
	vProposals   []*robust.Message
	vRaftLeader  bool
	vApplyErr    error
)

func vReset() {
	vLeaf, vLeafSession, vProxied, vProposals, vApplyErr = "", robust.Id{}, false, nil, nil
}

func verifStub_postMessage(api *HTTP, w http.ResponseWriter, r *http.Request, session robust.Id) {
	vLeaf, vLeafSession = "postmessage", session
}
func verifStub_deleteSession(api *HTTP, w http.ResponseWriter, r *http.Request, session robust.Id) {
	vLeaf, vLeafSession = "deletesession", session
}
func verifStub_createSession(api *HTTP, w http.ResponseWriter, r *http.Request) {
	vLeaf = "createsession"
}
func verifStub_private(api *HTTP, w http.ResponseWriter, r *http.Request) {
	vLeaf = "private"
}
func verifStub_partitioned(api *HTTP) (time.Time, bool) {
	// reaching this point of handleGetMessages means the session check passed
	vLeaf = "getmessages"
	return time.Time{}, true
}
func verifStub_proxy(api *HTTP, w http.ResponseWriter, r *http.Request, body interface{ Read([]byte) (int, error); Close() error }) {
	vProxied = true
}
func verifStub_raftState(r *raft.Raft) raft.RaftState {
	if vRaftLeader {
		return raft.Leader
	}
	return raft.Follower
}
func verifStub_sleep(d time.Duration) {}

func vRequest(method, path string) *http.Request {
	return &http.Request{Method: method, URL: &url.URL{Path: path}, Header: http.Header{}, Form: url.Values{}}
}

type vSess struct {
	id   robust.Id
	auth string
	live bool
}

// vServer builds an IRC server with two sessions (distinct ids, symbolic
// secrets) of which the second may already have been deleted.
func vServer() (*ircserver.IRCServer, []vSess) {
	i := ircserver.NewIRCServer("robustirc.net", time.Unix(0, 1420070400000000000))
	var out []vSess
	for k := 0; k < 2; k++ {
		s := vSess{id: robust.Id{Id: nondetU64()}, auth: nondetString(verifParam("authlen", 3)), live: true}
		for _, o := range out {
			verifAssume(o.id.Id != s.id.Id)
		}
		verifAssume(s.id.Id > 0)
		if err := i.CreateSession(s.id, s.auth, time.Unix(0, int64(s.id.Id))); err != nil {
			verifAssume(false)
		}
		out = append(out, s)
	}
	// everything up to some id has been applied on this node
	i.SetLastProcessed(robust.Id{Id: nondetU64()})
	return i, out
}
