package api

// C11: session routes need the session secret; admin routes the network password.

import (
	"strconv"

	"github.com/robustirc/robustirc/internal/ircserver"
	"github.com/robustirc/robustirc/internal/robust"
)

var vMethods = []string{"GET", "POST", "DELETE", "PUT"}

func verifHarness_C11_public() {
	vReset()
	i, sess := vServer()
	vRaftLeader = nondetBool()
	api := &HTTP{ircServerUnlocked: i, network: "robustirc.net", networkPassword: nondetString(3), getMessagesRequests: make(map[string]GetMessagesStats)}
	method := vMethods[verifCase(len(vMethods))]
	rest := nondetString(verifParam("rest", 13))
	verifAssume(verifIsASCII(rest))
	r := vRequest(method, "/robustirc/v1/"+rest)
	header := nondetString(verifParam("authlen", 3))
	if nondetBool() {
		r.Header.Set("X-Session-Auth", header)
	} else {
		header = ""
	}
	verifCaseLabel("public " + method)
	w := &vWriter{hdr: make(map[string][]string)}
	api.DispatchPublic(w, r)

	switch vLeaf {
	case "postmessage", "deletesession", "getmessages":
		// a session route was reached: the request carried that session's own non-empty secret
		ok := false
		for _, s := range sess {
			ok = verifOr(ok, verifAnd(s.id.Id == vLeafSession.Id, header == s.auth))
		}
		if vLeaf == "getmessages" {
			// the id is only known inside the handler: any of the two sessions must match the header
			ok = false
			for _, s := range sess {
				ok = verifOr(ok, header == s.auth)
			}
		}
		verifAssert(header != "", "session-route-needs-nonempty-secret")
		verifAssert(ok, "session-route-needs-that-sessions-secret")
	case "createsession":
		verifAssert(method == "POST", "createsession-only-by-post")
	case "private":
		verifAssert(false, "private-handler-reachable-from-public-dispatch")
	default:
		// refused or proxied: never a success status for a session route
		verifAssert(verifOr(vProxied, w.status == 404, w.status == 500, w.status == 0), "refusal-status")
	}
	_ = robust.Id{}
}

func verifHarness_C11_private() {
	vReset()
	i, _ := vServer()
	pw := nondetString(3)
	api := &HTTP{ircServerUnlocked: i, network: "robustirc.net", networkPassword: pw, getMessagesRequests: make(map[string]GetMessagesStats)}
	method := vMethods[verifCase(len(vMethods))]
	paths := []string{"/", "/status", "/status/getmessage", "/status/sessions", "/status/irclog", "/status/state", "/irclog", "/snapshot", "/leader", "/config", "/join", "/part", "/quit", "/kill", "/other"}
	path := paths[verifCase(len(paths))]
	r := vRequest(method, path)
	user, pass, has := nondetString(9), nondetString(3), nondetBool()
	verifSetBasicAuth(r, user, pass, has)
	verifCaseLabel("private " + method + " " + path)
	w := &vWriter{hdr: make(map[string][]string)}
	api.DispatchPrivate(w, r)
	authed := verifAnd(has, user == "robustirc", pass == pw)
	if vLeaf != "" {
		verifAssert(authed, "private-route-needs-network-password")
	}
	if !authed {
		verifAssert(w.status == 401, "wrong-credentials-answer-401")
		verifAssert(vLeaf == "", "wrong-credentials-reach-no-handler")
	}
}

// C17 (API mapping): for an id newer than everything this node has applied
// ("not yet seen") the read route answers 500 (retry), never 404 ("no such
// session"), and on a follower the write routes are forwarded to the leader;
// for a deleted session every route answers 404.
func verifHarness_C17_api() {
	vReset()
	i, _ := vServer()
	vRaftLeader = nondetBool()
	api := &HTTP{ircServerUnlocked: i, network: "robustirc.net", getMessagesRequests: make(map[string]GetMessagesStats)}
	sid := nondetString(3)
	id, perr := strconv.ParseUint(sid, 0, 64)
	verifAssume(perr == nil)
	_, lerr := i.GetSession(robust.Id{Id: id})
	verifAssume(lerr != nil)
	header := nondetString(3)
	verifAssume(header != "")
	r := vRequest("GET", "/robustirc/v1/"+sid+"/messages")
	r.Header.Set("X-Session-Auth", header)
	w := &vWriter{hdr: make(map[string][]string)}
	if verifCase(2) == 0 {
		verifCaseLabel("read route")
		api.handleGetMessages(w, r, sid)
		verifAssert(vLeaf == "", "unknown-session-reaches-no-handler")
		if lerr == ircserver.ErrSessionNotYetSeen {
			verifAssert(w.status == 500, "not-yet-seen-read-answers-retry-not-gone")
		} else {
			verifAssert(w.status == 404, "deleted-session-read-answers-gone")
		}
		return
	}
	verifCaseLabel("write route")
	_, err := api.sessionOrProxy(w, r, sid)
	verifAssert(err != nil, "unknown-session-is-refused")
	if lerr == ircserver.ErrSessionNotYetSeen {
		if !vRaftLeader {
			verifAssert(verifAnd(vProxied, w.status == 0), "not-yet-seen-write-on-follower-is-forwarded")
		}
	} else {
		verifAssert(verifAnd(!vProxied, w.status == 404), "deleted-session-write-answers-gone")
	}
}
