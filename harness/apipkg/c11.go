package api

// C11: session routes need the session secret; admin routes the network password.

import "github.com/robustirc/robustirc/internal/robust"

var vMethods = []string{"GET", "POST", "DELETE", "PUT"}

func verifHarness_C11_public() {
	vReset()
	i, sess := vServer()
	vRaftLeader = nondetBool()
	api := &HTTP{ircServerUnlocked: i, network: "robustirc.net", networkPassword: nondetString(3), getMessagesRequests: make(map[string]GetMessagesStats)}
	method := vMethods[verifCase(len(vMethods))]
	rest := nondetString(verifParam("rest", 13))
	verifAssume(verifIsASCII(rest))
	r := vRequest(method, "/robustirc/v1/"+rest)
	header := nondetString(verifParam("authlen", 3))
	if nondetBool() {
		r.Header.Set("X-Session-Auth", header)
	} else {
		header = ""
	}
	verifCaseLabel("public " + method)
	w := &vWriter{hdr: make(map[string][]string)}
	api.DispatchPublic(w, r)

	switch vLeaf {
	case "postmessage", "deletesession", "getmessages":
		// a session route was reached: the request carried that session's own non-empty secret
		ok := false
		for _, s := range sess {
			ok = verifOr(ok, verifAnd(s.id.Id == vLeafSession.Id, header == s.auth))
		}
		if vLeaf == "getmessages" {
			// the id is only known inside the handler: any of the two sessions must match the header
			ok = false
			for _, s := range sess {
				ok = verifOr(ok, header == s.auth)
			}
		}
		verifAssert(header != "", "session-route-needs-nonempty-secret")
		verifAssert(ok, "session-route-needs-that-sessions-secret")
	case "createsession":
		verifAssert(method == "POST", "createsession-only-by-post")
	case "private":
		verifAssert(false, "private-handler-reachable-from-public-dispatch")
	default:
		// refused or proxied: never a success status for a session route
		verifAssert(verifOr(vProxied, w.status == 404, w.status == 500, w.status == 0), "refusal-status")
	}
	_ = robust.Id{}
}

func verifHarness_C11_private() {
	vReset()
	i, _ := vServer()
	pw := nondetString(3)
	api := &HTTP{ircServerUnlocked: i, network: "robustirc.net", networkPassword: pw, getMessagesRequests: make(map[string]GetMessagesStats)}
	method := vMethods[verifCase(len(vMethods))]
	paths := []string{"/", "/status", "/status/getmessage", "/status/sessions", "/status/irclog", "/status/state", "/irclog", "/snapshot", "/leader", "/config", "/join", "/part", "/quit", "/kill", "/other"}
	path := paths[verifCase(len(paths))]
	r := vRequest(method, path)
	user, pass, has := nondetString(9), nondetString(3), nondetBool()
	verifSetBasicAuth(r, user, pass, has)
	verifCaseLabel("private " + method + " " + path)
	w := &vWriter{hdr: make(map[string][]string)}
	api.DispatchPrivate(w, r)
	authed := verifAnd(has, user == "robustirc", pass == pw)
	if vLeaf != "" {
		verifAssert(authed, "private-route-needs-network-password")
	}
	if !authed {
		verifAssert(w.status == 401, "wrong-credentials-answer-401")
		verifAssert(vLeaf == "", "wrong-credentials-reach-no-handler")
	}
}
