package api

// C04 at the level of the HTTP handler: the real handleGetMessages (session
// check, lastseen parsing, per-session filter, JSON encoding) with its helper
// goroutines, against the same stream specification and lagging node as the
// direct run.  What the client receives is what the JSON encoder was given.

import (
	"context"
	"strconv"
	"strings"
	"time"

	"github.com/robustirc/robustirc/internal/outputstream"
	"github.com/robustirc/robustirc/internal/robust"
)

func verifStub_notPartitioned(api *HTTP) (time.Time, bool) { return time.Time{}, false }
func verifStub_osInterrupt(o *outputstream.OutputStream)  {}

var _ context.Context = (*vGMCtx)(nil)

func verifHarness_C04_handler() {
	vReset()
	i, sess := vServer()
	s := sess[0]
	n := verifCase(verifParam("batches", 3)) + 1
	vBatches = nil
	vHandlerRun = true
	prev := uint64(0)
	for k := 0; k < n; k++ {
		id := nondetU64()
		verifAssume(id > prev)
		prev = id
		m := verifCase(verifParam("replies", 2)) + 1
		var b []outputstream.Message
		for r := 1; r <= m; r++ {
			b = append(b, outputstream.Message{Id: robust.Id{Id: id, Reply: uint64(r)}, Data: "x", InterestingFor: map[uint64]bool{s.id.Id: nondetBool()}})
		}
		vBatches = append(vBatches, b)
	}
	k0 := verifCase(n)
	r0 := verifCase(len(vBatches[k0])) + 1
	vApplied = verifCase(n + 1)
	// findings are recorded per scenario class: the node already has the batch named by lastseen, or it lags behind it
	vK0, vHow = k0, ""
	vLagTag = ":node-has-the-batch"
	if vApplied <= k0 {
		vLagTag = ":lagging-node"
	}
	verifCaseLabel("handler batches=" + vItoa(n) + " seen=" + vItoa(k0) + "." + vItoa(r0) + " applied=" + vItoa(vApplied))

	// the request: GET /robustirc/v1/<sid>/messages?lastseen=<a>.<b> with the session's secret
	sid, a, b := nondetString(3), nondetString(3), nondetString(2)
	verifAssume(verifIsASCII(a))
	verifAssume(verifIsASCII(b))
	verifAssume(!strings.Contains(a, ".") && !strings.Contains(b, "."))
	ls := a + "." + b
	parts := strings.Split(ls, ".")
	verifAssume(len(parts) == 2)
	idn, e0 := strconv.ParseUint(sid, 0, 64)
	first, e1 := strconv.ParseUint(parts[0], 0, 64)
	last, e2 := strconv.ParseUint(parts[1], 0, 64)
	verifAssume(e0 == nil && e1 == nil && e2 == nil)
	verifAssume(idn == s.id.Id && first == vBatches[k0][0].Id.Id && last == uint64(r0))
	verifAssume(ls != "0.0")
	vGMctx = &vGMCtx{done: make(chan struct{})}
	r := vRequest("GET", "/robustirc/v1/"+sid+"/messages")
	r.Form["lastseen"] = []string{ls}
	r.Header.Set("X-Session-Auth", s.auth)
	verifAssume(s.auth != "")
	r = r.WithContext(vGMctx)
	w := &vWriter{hdr: make(map[string][]string)}
	api := &HTTP{ircServerUnlocked: i, network: "robustirc.net", getMessagesRequests: make(map[string]GetMessagesStats)}
	verifSetNow(time.Unix(1500000000, 0))
	// when every goroutine of the request waits and no message is left, the client disconnects
	verifSetEnv(func() {}, func() { vGMctx.cancel() })
	api.handleGetMessages(w, r, sid)
	verifAssert(w.status == 200, "request-accepted")

	var got []robust.Id
	for _, e := range verifEncoded() {
		m := e.(*robust.Message)
		verifAssert(m.InterestingFor[s.id.Id], "only-lines-addressed-to-the-session")
		got = append(got, m.Id)
	}
	// what the stream holds for this session after the resume point, in order
	var want []robust.Id
	for k := k0; k < n; k++ {
		for _, m := range vBatches[k] {
			if k == k0 && m.Id.Reply <= uint64(r0) {
				continue
			}
			if m.InterestingFor[s.id.Id] {
				want = append(want, m.Id)
			}
		}
	}
	for j := range got {
		seen := false
		for k := 0; k <= k0; k++ {
			for _, m := range vBatches[k] {
				if (k < k0 || m.Id.Reply <= uint64(r0)) && m.Id == got[j] {
					seen = true
				}
			}
		}
		verifAssert(!seen, "no-duplicate-after-resume"+vLagTag+vHow)
		for j2 := 0; j2 < j; j2++ {
			verifAssert(got[j2] != got[j], "no-duplicate-after-resume"+vLagTag+vHow)
		}
	}
	for _, x := range want {
		found := false
		for _, g := range got {
			if g == x {
				found = true
			}
		}
		verifAssert(found, "no-loss-after-resume"+vLagTag+vHow)
	}
	verifAssert(len(got) >= 0, "delivery-sequence-compared")
	for j := 1; j < len(got); j++ {
		p, q := got[j-1], got[j]
		verifAssert(p.Id < q.Id || (p.Id == q.Id && p.Reply < q.Reply), "delivered-in-id-order")
	}
}
