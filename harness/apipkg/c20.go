package api

// C20 (HTTP API object): lock discipline for pairs of operations on api.HTTP
// that run concurrently: FSM.Restore swaps the state pointers (ReplaceState)
// while handlers read them; GetMessages handlers register and deregister
// themselves while the status page copies the table; unauthenticated requests
// update the password throttle.

import (
	"github.com/robustirc/robustirc/internal/robust"
)

var vApiOps = []string{"ReplaceState", "ircServer", "ircStore", "output", "setGetMessagesRequests", "deleteGetMessagesRequests", "copyGetMessagesRequests", "wrongPassword"}

func verifHarness_C20_api() {
	a := verifCase(len(vApiOps))
	b := verifCase(len(vApiOps))
	if b < a {
		verifAssume(false) // unordered pairs
	}
	i, _ := vServer()
	i2, _ := vServer()
	api := &HTTP{ircServerUnlocked: i, network: "robustirc.net", networkPassword: "secret", getMessagesRequests: make(map[string]GetMessagesStats)}
	api.getMessagesRequests["1"] = GetMessagesStats{Session: robust.Id{Id: 1}, cancel: func(bool) {}}
	sid := "1"
	if nondetBool() {
		sid = "2"
	}
	op := func(name string) func() {
		switch name {
		case "ReplaceState":
			return func() { api.ReplaceState(i2, nil, nil) }
		case "ircServer":
			return func() { api.ircServer() }
		case "ircStore":
			return func() { api.ircStore() }
		case "output":
			return func() { api.output() }
		case "setGetMessagesRequests":
			st := GetMessagesStats{Session: robust.Id{Id: 2}, cancel: func(bool) {}}
			return func() { api.setGetMessagesRequests(sid, st) }
		case "deleteGetMessagesRequests":
			return func() { api.deleteGetMessagesRequests(sid) }
		case "copyGetMessagesRequests":
			return func() { api.copyGetMessagesRequests() }
		case "wrongPassword":
			r := vRequest("GET", "/")
			w := &vWriter{hdr: make(map[string][]string)}
			return func() { api.DispatchPrivate(w, r) }
		}
		return func() {}
	}
	opA, opB := op(vApiOps[a]), op(vApiOps[b])
	verifCaseLabel(vApiOps[a] + " || " + vApiOps[b])
	verifConcurrently(func() {
		verifOp("A:" + vApiOps[a])
		opA()
		verifOp("")
	}, func() {
		verifOp("B:" + vApiOps[b])
		opB()
		verifOp("")
	})
	verifAssert(verifLocksetsConsistent(), "locksets:"+vApiOps[a]+"||"+vApiOps[b])
}
