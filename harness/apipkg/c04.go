package api

// C04, direct run: the real getMessages loop called directly (see c04common.go
// for the stream specification).

import (
	"github.com/robustirc/robustirc/internal/outputstream"
	"github.com/robustirc/robustirc/internal/robust"
)

func verifHarness_C04_resume() {
	n := verifCase(verifParam("batches", 3)) + 1
	vBatches = nil
	vHandlerRun = false
	prev := uint64(0)
	for k := 0; k < n; k++ {
		id := nondetU64()
		verifAssume(id > prev)
		prev = id
		m := verifCase(verifParam("replies", 2)) + 1
		var b []outputstream.Message
		for r := 1; r <= m; r++ {
			b = append(b, outputstream.Message{Id: robust.Id{Id: id, Reply: uint64(r)}, Data: "x", InterestingFor: map[uint64]bool{7: nondetBool()}})
		}
		vBatches = append(vBatches, b)
	}
	// the client has truly seen everything up to message r0 of batch k0
	k0 := verifCase(n)
	r0 := verifCase(len(vBatches[k0])) + 1
	lastSeen := robust.Id{Id: vBatches[k0][0].Id.Id, Reply: uint64(r0)}
	// the node it reconnects to has applied some prefix, possibly not yet batch k0
	vApplied = verifCase(n + 1)
	// findings are recorded per scenario class: the node already has the batch named by lastseen, or it lags behind it
	vK0, vHow = k0, ""
	vLagTag = ":node-has-the-batch"
	if vApplied <= k0 {
		vLagTag = ":lagging-node"
	}
	verifCaseLabel("batches=" + vItoa(n) + " seen=" + vItoa(k0) + "." + vItoa(r0) + " applied=" + vItoa(vApplied))
	vGMctx = &vGMCtx{done: make(chan struct{})}
	ch := make(chan []*robust.Message, 64)
	api := &HTTP{}
	api.getMessages(vGMctx, lastSeen, ch)

	// what was delivered, in order
	var got []robust.Id
	for len(ch) > 0 {
		for _, m := range <-ch {
			got = append(got, m.Id)
		}
	}
	// what the stream holds after the resume point, in order
	var want []robust.Id
	for k := k0; k < n; k++ {
		for _, m := range vBatches[k] {
			if k == k0 && m.Id.Reply <= uint64(r0) {
				continue
			}
			want = append(want, m.Id)
		}
	}
	// (1) nothing the client already has, nothing twice
	for j := range got {
		seen := false
		for k := 0; k <= k0; k++ {
			for _, m := range vBatches[k] {
				if (k < k0 || m.Id.Reply <= uint64(r0)) && m.Id == got[j] {
					seen = true
				}
			}
		}
		verifAssert(!seen, "no-duplicate-after-resume"+vLagTag+vHow)
		for j2 := 0; j2 < j; j2++ {
			verifAssert(got[j2] != got[j], "no-duplicate-after-resume"+vLagTag+vHow)
		}
	}
	// (2) everything after the resume point arrives
	for _, w := range want {
		found := false
		for _, g := range got {
			if g == w {
				found = true
			}
		}
		verifAssert(found, "no-loss-after-resume"+vLagTag+vHow)
	}
	verifAssert(len(got) >= 0, "delivery-sequence-compared")
	// (3) in id order
	for j := 1; j < len(got); j++ {
		a, b := got[j-1], got[j]
		verifAssert(a.Id < b.Id || (a.Id == b.Id && a.Reply < b.Reply), "delivered-in-id-order")
	}
}

