package api

// C04: exactly-once, in-order delivery when a client resumes with lastseen.
//
// The real getMessages loop runs against a specification model of the output
// stream (what C08 establishes about Get/GetNext), on a node whose applied
// prefix of the log may lag behind what the client has already seen and may
// grow during the request.

import (
	"context"
	"time"

	"github.com/robustirc/robustirc/internal/outputstream"
	"github.com/robustirc/robustirc/internal/robust"
)

type vGMCtx struct {
	done      chan struct{}
	cancelled bool
}

func (c *vGMCtx) Deadline() (time.Time, bool)       { return time.Time{}, false }
func (c *vGMCtx) Done() <-chan struct{}             { return c.done }
func (c *vGMCtx) Value(key interface{}) interface{} { return nil }
func (c *vGMCtx) Err() error {
	if c.cancelled {
		return context.Canceled
	}
	return nil
}
func (c *vGMCtx) cancel() {
	if !c.cancelled {
		c.cancelled = true
		close(c.done)
	}
}

// the stream: batches with increasing ids; the node has applied batches[:vApplied]
var (
	vBatches [][]outputstream.Message
	vApplied int
	vGMctx   *vGMCtx
)

// vLagStep: the node may apply further batches at this point.
func vLagStep() {
	for vApplied < len(vBatches) && verifCase(2) == 1 {
		vApplied++
	}
}

func verifStub_osGet(o *outputstream.OutputStream, id robust.Id) ([]outputstream.Message, bool) {
	for k := 0; k < vApplied; k++ {
		if vBatches[k][0].Id.Id == id.Id {
			return vBatches[k], true
		}
	}
	return nil, false
}

// verifStub_osGetNext is the specification of OutputStream.GetNext (C08): the
// applied batch with the smallest id greater than lastseen; if there is none,
// block until the node applies another batch and return that one (whatever
// its id); empty once the context is cancelled.
func verifStub_osGetNext(o *outputstream.OutputStream, ctx context.Context, lastseen robust.Id) []outputstream.Message {
	vLagStep()
	for k := 0; k < vApplied; k++ {
		if vBatches[k][0].Id.Id > lastseen.Id {
			return vBatches[k]
		}
	}
	if vApplied < len(vBatches) {
		// blocked until the next batch is applied
		vApplied++
		return vBatches[vApplied-1]
	}
	// nothing more will ever come in this scenario: the client disconnects
	vGMctx.cancel()
	return []outputstream.Message{}
}

func verifStub_sleepLag(d time.Duration) { vLagStep() }

func verifHarness_C04_resume() {
	n := verifCase(verifParam("batches", 3)) + 1
	vBatches = nil
	prev := uint64(0)
	for k := 0; k < n; k++ {
		id := nondetU64()
		verifAssume(id > prev)
		prev = id
		m := verifCase(verifParam("replies", 2)) + 1
		var b []outputstream.Message
		for r := 1; r <= m; r++ {
			b = append(b, outputstream.Message{Id: robust.Id{Id: id, Reply: uint64(r)}, Data: "x", InterestingFor: map[uint64]bool{7: nondetBool()}})
		}
		vBatches = append(vBatches, b)
	}
	// the client has truly seen everything up to message r0 of batch k0
	k0 := verifCase(n)
	r0 := verifCase(len(vBatches[k0])) + 1
	lastSeen := robust.Id{Id: vBatches[k0][0].Id.Id, Reply: uint64(r0)}
	// the node it reconnects to has applied some prefix, possibly not yet batch k0
	vApplied = verifCase(n + 1)
	verifCaseLabel("batches=" + vItoa(n) + " seen=" + vItoa(k0) + "." + vItoa(r0) + " applied=" + vItoa(vApplied))
	vGMctx = &vGMCtx{done: make(chan struct{})}
	ch := make(chan []*robust.Message, 64)
	api := &HTTP{}
	api.getMessages(vGMctx, lastSeen, ch)

	// what was delivered, in order
	var got []robust.Id
	for len(ch) > 0 {
		for _, m := range <-ch {
			got = append(got, m.Id)
		}
	}
	// what the stream holds after the resume point, in order
	var want []robust.Id
	for k := k0; k < n; k++ {
		for _, m := range vBatches[k] {
			if k == k0 && m.Id.Reply <= uint64(r0) {
				continue
			}
			want = append(want, m.Id)
		}
	}
	// (1) nothing the client already has, nothing twice
	for j := range got {
		seen := false
		for k := 0; k <= k0; k++ {
			for _, m := range vBatches[k] {
				if (k < k0 || m.Id.Reply <= uint64(r0)) && m.Id == got[j] {
					seen = true
				}
			}
		}
		verifAssert(!seen, "no-duplicate-after-resume")
		for j2 := 0; j2 < j; j2++ {
			verifAssert(got[j2] != got[j], "no-duplicate-after-resume")
		}
	}
	// (2) everything after the resume point arrives
	for _, w := range want {
		found := false
		for _, g := range got {
			if g == w {
				found = true
			}
		}
		verifAssert(found, "no-loss-after-resume")
	}
	verifAssert(len(got) >= 0, "delivery-sequence-compared")
	// (3) in id order
	for j := 1; j < len(got); j++ {
		a, b := got[j-1], got[j]
		verifAssert(a.Id < b.Id || (a.Id == b.Id && a.Reply < b.Reply), "delivered-in-id-order")
	}
}

func vItoa(n int) string { return string(rune('0' + n)) }
