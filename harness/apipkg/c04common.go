package api

// C04: exactly-once, in-order delivery when a client resumes with lastseen.
//
// The real getMessages loop runs against a specification model of the output
// stream (what C08 establishes about Get/GetNext), on a node whose applied
// prefix of the log may lag behind what the client has already seen and may
// grow during the request.

import (
	"context"
	"time"

	"github.com/robustirc/robustirc/internal/outputstream"
	"github.com/robustirc/robustirc/internal/robust"
)

type vGMCtx struct {
	done      chan struct{}
	cancelled bool
}

func (c *vGMCtx) Deadline() (time.Time, bool)       { return time.Time{}, false }
func (c *vGMCtx) Done() <-chan struct{}             { return c.done }
func (c *vGMCtx) Value(key interface{}) interface{} { return nil }
func (c *vGMCtx) Err() error {
	if c.cancelled {
		return context.Canceled
	}
	return nil
}
func (c *vGMCtx) cancel() {
	if !c.cancelled {
		c.cancelled = true
		close(c.done)
	}
}

// the stream: batches with increasing ids; the node has applied batches[:vApplied]
var (
	vBatches [][]outputstream.Message
	vApplied int
	vGMctx   *vGMCtx
	vLagTag  string
	// how the batch named by lastseen reached a lagging node: while the reader waited inside GetNext, or between two calls
	vK0  int
	vHow string
	// handler-level run: GetNext blocks at the end of the scenario instead of cancelling
	vHandlerRun bool
	vNever      = make(chan struct{})
)

// vLagStep: the node may apply further batches at this point.
func vLagStep() {
	for vApplied < len(vBatches) && verifCase(2) == 1 {
		if vApplied == vK0 {
			vHow = ":applied-between-calls"
		}
		vApplied++
	}
}

func verifStub_osGet(o *outputstream.OutputStream, id robust.Id) ([]outputstream.Message, bool) {
	for k := 0; k < vApplied; k++ {
		if vBatches[k][0].Id.Id == id.Id {
			return vBatches[k], true
		}
	}
	return nil, false
}

// verifStub_osGetNext is the specification of OutputStream.GetNext (C08): the
// applied batch with the smallest id greater than lastseen; if there is none,
// block until the node applies another batch and return that one (whatever
// its id); empty once the context is cancelled.
func verifStub_osGetNext(o *outputstream.OutputStream, ctx context.Context, lastseen robust.Id) []outputstream.Message {
	vLagStep()
	for k := 0; k < vApplied; k++ {
		if vBatches[k][0].Id.Id > lastseen.Id {
			return vBatches[k]
		}
	}
	if vApplied < len(vBatches) {
		// blocked until the next batch is applied
		if vApplied == vK0 {
			vHow = ":applied-while-reader-waits"
		}
		vApplied++
		return vBatches[vApplied-1]
	}
	if vHandlerRun {
		// nothing more will ever come: the reader goroutine waits here for good; the handler
		// drains what was sent and the client disconnects when everything is idle
		<-vNever
	}
	// nothing more will ever come in this scenario: the client disconnects
	vGMctx.cancel()
	return []outputstream.Message{}
}

func verifStub_sleepLag(d time.Duration) { vLagStep() }

func vItoa(n int) string { return string(rune('0' + n)) }
