package api

// C10 (c), C15 (1), C16 (a): the real handlePostMessage / handleDeleteSession /
// handlePostConfig with raft replaced by recording stubs.

import (
	"strings"
	"time"

	"github.com/robustirc/robustirc/internal/robust"
)

func verifStub_applyMessageWait(api *HTTP, msg *robust.Message, timeout time.Duration) error {
	cp := *msg
	vProposals = append(vProposals, &cp)
	return vApplyErr
}

func vAPI() (*HTTP, []vSess) {
	vReset()
	i, sess := vServer()
	vRaftLeader = nondetBool()
	return &HTTP{ircServerUnlocked: i, network: "robustirc.net", getMessagesRequests: make(map[string]GetMessagesStats)}, sess
}

// vBody is the posted text: an arbitrary string of at most "data" bytes, or
// (parameter "filler" > 0) an arbitrary prefix of fixed small length, then
// that many harmless bytes, then an arbitrary suffix, so that texts longer
// than one IRC line are covered while only the interesting bytes are symbolic.
func vBody() string {
	n := verifParam("data", 6)
	filler := verifParam("filler", 0)
	if filler == 0 {
		return nondetString(n)
	}
	k := verifCase(n + 1)
	pre := make([]byte, k)
	for j := range pre {
		pre[j] = nondetU8()
	}
	return string(pre) + strings.Repeat("a", filler) + nondetString(n)
}

func verifHarness_C10_post() { vPost(false) }

// C15 link (1): whatever JSON string is posted, the proposed line is a single line.
func verifHarness_C15_post() { vPost(true) }

func vPost(onlyClean bool) {
	api, sess := vAPI()
	s := sess[0]
	// the session has already applied some message (or none: marker 0)
	applied := nondetBool()
	marker := uint64(0)
	if applied {
		marker = nondetU64()
		rm := &robust.Message{Id: robust.Id{Id: nondetU64()}, Session: s.id, Type: robust.IRCFromClient, Data: "PING x", ClientMessageId: marker, UnixNano: 1}
		verifAssume(api.ircServer().UpdateLastClientMessageID(rm) == nil)
	}
	data := vBody()
	cmid := nondetU64()
	valid := nondetBool()
	r := vRequest("POST", "/robustirc/v1/x/message")
	r.Body = verifJSONBody(map[string]interface{}{"Data": data, "ClientMessageId": cmid}, valid)
	r.RemoteAddr = nondetString(3)
	w := &vWriter{hdr: make(map[string][]string)}
	verifCaseLabel("post applied=" + vBs(applied) + " valid=" + vBs(valid))
	api.handlePostMessage(w, r, s.id)

	if onlyClean {
		verifAssert(len(vProposals) <= 1, "at-most-one-proposal")
		for _, p := range vProposals {
			verifAssert(verifClean(p.Data), "posted-line-is-cut-at-cr-lf-nul")
		}
		return
	}
	if !valid {
		verifAssert(w.status == 400, "undecodable-body-is-a-bad-request")
		verifAssert(len(vProposals) == 0 && !vProxied, "undecodable-body-has-no-effect")
		return
	}
	if cmid == marker {
		// a retry of the message applied last: acknowledged, not applied again
		verifAssert(len(vProposals) == 0, "retry-is-not-proposed-again")
		verifAssert(!vProxied, "retry-is-not-forwarded")
		verifAssert(w.status == 0 || w.status == 200, "retry-is-acknowledged")
		return
	}
	verifAssert(len(vProposals) <= 1, "at-most-one-proposal")
	if len(vProposals) == 1 {
		p := vProposals[0]
		verifAssert(p.ClientMessageId == cmid, "proposal-carries-the-client-message-id")
		verifAssert(p.Session == s.id, "proposal-carries-the-session")
		verifAssert(p.Type == robust.IRCFromClient, "proposal-type")
	} else {
		verifAssert(vProxied, "not-leader-forwards")
	}
}

func verifHarness_C15_delete() {
	api, sess := vAPI()
	s := sess[0]
	quit := vBody()
	r := vRequest("DELETE", "/robustirc/v1/x")
	r.Body = verifJSONBody(map[string]interface{}{"Quitmessage": quit}, true)
	w := &vWriter{hdr: make(map[string][]string)}
	api.handleDeleteSession(w, r, s.id)
	if len(vProposals) == 1 {
		verifAssert(vProposals[0].Type == robust.DeleteSession, "delete-proposal-type")
		verifAssert(verifClean(vProposals[0].Data), "quit-message-is-a-single-line")
	}
}

func verifHarness_C16_post() {
	api, _ := vAPI()
	i := api.ircServer()
	cur := nondetU64()
	i.Config.Revision = cur
	hdr := nondetString(3)
	body := nondetString(4)
	parses := nondetBool()
	r := vRequest("POST", "/config")
	r.Header.Set("X-RobustIRC-Config-Revision", hdr)
	r.Body = verifTextBody(body, parses)
	w := &vWriter{hdr: make(map[string][]string)}
	verifCaseLabel("config parses=" + vBs(parses))
	api.handlePostConfig(w, r)
	verifAssert(len(vProposals) <= 1, "at-most-one-config-proposal")
	if len(vProposals) == 1 {
		p := vProposals[0]
		verifAssert(parses, "only-parsable-configs-are-proposed")
		verifAssert(p.Type == robust.Config, "config-proposal-type")
		verifAssert(p.Data == body, "config-proposal-carries-the-body")
		verifAssert(p.Revision == cur+1, "accepted-update-raises-revision-by-one")
		verifAssert(i.Config.Revision == cur, "handler-does-not-touch-the-state")
	} else if !vProxied {
		verifAssert(w.status == 400, "rejected-update-is-a-bad-request")
	}
	if !parses {
		verifAssert(len(vProposals) == 0 && !vProxied, "unparsable-config-has-no-effect")
	}
}

func vBs(b bool) string {
	if b {
		return "1"
	}
	return "0"
}
