package outputstream

// C20 (output stream): lock discipline for pairs of operations that run
// concurrently in the system: the state machine appends and compaction
// deletes while GetMessages handlers read.

import "github.com/robustirc/robustirc/internal/robust"

var vOsWriters = []string{"Add", "Delete", "InterruptGetNext", "Get", "GetNext"}
var vOsReaders = []string{"Get", "GetNext", "LastSeen"}

func verifHarness_C20_outputstream() {
	a := verifCase(len(vOsWriters))
	b := verifCase(len(vOsReaders))
	s := vNewStream()
	s.add()
	s.add()
	first, second := s.ids[1], s.ids[2]
	fresh := nondetU64()
	verifAssume(fresh > second && fresh < ^uint64(0))
	// both readers may address the same batch, so that the cache entry one of them creates is read by the other
	q := first
	if nondetBool() {
		q = second
	}
	op := func(name string) func() {
		switch name {
		case "Add":
			return func() {
				s.os.Add([]Message{{Id: robust.Id{Id: fresh, Reply: 1}, Data: "x", InterestingFor: map[uint64]bool{1: true}}})
			}
		case "Delete":
			return func() { s.os.Delete(robust.Id{Id: first}) }
		case "InterruptGetNext":
			return func() { s.os.InterruptGetNext() }
		case "Get":
			return func() { s.os.Get(robust.Id{Id: q}) }
		case "GetNext":
			// a successor exists: the call returns without waiting
			return func() { s.os.GetNext(s.ctx, robust.Id{Id: first}) }
		case "LastSeen":
			return func() { s.os.LastSeen() }
		}
		return func() {}
	}
	opA, opB := op(vOsWriters[a]), op(vOsReaders[b])
	verifCaseLabel(vOsWriters[a] + " || " + vOsReaders[b])
	verifConcurrently(func() {
		verifOp("A:" + vOsWriters[a])
		opA()
		verifOp("")
	}, func() {
		verifOp("B:" + vOsReaders[b])
		opB()
		verifOp("")
	})
	verifAssert(verifLocksetsConsistent(), "locksets:"+vOsWriters[a]+"||"+vOsReaders[b])
}
