package outputstream

import "github.com/robustirc/robustirc/internal/robust"

// symbolic side: the reader runs in the engine, which invokes the environment at every yield point
func vRunReader(s *vStream) []Message {
	return s.os.GetNext(s.ctx, robust.Id{Id: s.x})
}
