package outputstream

// C08: next-message lookup is correct and live under every interleaving.
//
// The real GetNext / Get / Add / Delete / InterruptGetNext run over the
// LevelDB model.  GetNext gives up its lock between RUnlock and Lock and
// inside Cond.Wait; at each such point the environment below may run a
// bounded program of Add (larger id) / Delete (oldest) / Delete (missing) /
// InterruptGetNext / cancel, chosen by the solver.

import (
	"context"
	"math"
	"sync"
	"time"

	"github.com/robustirc/robustirc/internal/robust"
)

type vCtx struct{ done chan struct{} }

func (c *vCtx) Deadline() (time.Time, bool)       { return time.Time{}, false }
func (c *vCtx) Done() <-chan struct{}             { return c.done }
func (c *vCtx) Err() error                        { return nil }
func (c *vCtx) Value(key interface{}) interface{} { return nil }

var _ context.Context = (*vCtx)(nil)

type vStream struct {
	os        *OutputStream
	ids       []uint64 // ids ever added, increasing (ids[0] = 0 is the initial batch)
	live      []bool   // currently stored
	cancelled bool
	ctx       *vCtx
	budget    int
	// ghost: store snapshots (one bit vector over ids per instant) taken before the call and after every environment operation
	snaps [][]bool
	x     uint64
}

func vNewStream() *vStream {
	os := &OutputStream{messagesCache: make(map[uint64]*messageBatch), db: verifNewLevelDB()}
	os.newMessage = sync.NewCond(&os.messagesMu)
	os.lastseen = messageBatch{
		Messages: []Message{{Id: robust.Id{Id: 0}, InterestingFor: make(map[uint64]bool)}},
		NextID:   math.MaxUint64,
	}
	var key [8]byte
	verifLevelDBPutIf(os.db, key[:], os.lastseen.marshal(), true)
	return &vStream{os: os, ids: []uint64{0}, live: []bool{true}, ctx: &vCtx{done: make(chan struct{})}}
}

func (s *vStream) add() {
	id := nondetU64()
	verifAssume(id > s.ids[len(s.ids)-1])
	verifAssume(id < math.MaxUint64)
	n := verifCase(2) + 1
	msgs := make([]Message, n)
	for k := range msgs {
		msgs[k] = Message{Id: robust.Id{Id: id, Reply: uint64(k + 1)}, Data: nondetString(2), InterestingFor: map[uint64]bool{nondetU64(): true}}
	}
	if err := s.os.Add(msgs); err != nil {
		verifAssert(false, "add-no-error")
	}
	s.ids = append(s.ids, id)
	s.live = append(s.live, true)
}

// deleteOldest removes the oldest batch other than the initial one (compaction order).
func (s *vStream) deleteOldest() bool {
	for k := 1; k < len(s.ids); k++ {
		if s.live[k] {
			// the stream must keep at least one batch besides id 0 being deletable: Delete of the
			// very last remaining batch is what compaction never does while it is the tail
			if err := s.os.Delete(robust.Id{Id: s.ids[k]}); err != nil {
				verifAssert(false, "delete-no-error")
			}
			s.live[k] = false
			return true
		}
	}
	return false
}

func (s *vStream) snapshot() {
	s.snaps = append(s.snaps, append([]bool{}, s.live...))
}

// envOps is the environment program run at one yield point.
func (s *vStream) envOps() {
	for s.budget > 0 {
		op := verifCase(6)
		if op == 0 {
			return
		}
		s.budget--
		switch op {
		case 1:
			s.add()
		case 2:
			s.deleteOldest()
		case 3:
			// delete of an id that is not stored
			q := nondetU64()
			for k := range s.ids {
				verifAssume(verifOr(!s.live[k], q != s.ids[k]))
			}
			verifAssume(q != 0)
			if err := s.os.Delete(robust.Id{Id: q}); err != nil {
				verifAssert(false, "delete-missing-no-error")
			}
		case 4:
			s.os.InterruptGetNext()
		case 5:
			if !s.cancelled {
				s.cancelled = true
				close(s.ctx.done)
			}
			s.os.InterruptGetNext()
		}
		s.snapshot()
	}
}

// successorIn: r is the smallest id greater than x in the snapshot.
func (s *vStream) successorIn(snap []bool, r uint64) bool {
	isIn := false
	none := true
	for k := range snap {
		id := s.ids[k]
		isIn = verifOr(isIn, verifAnd(snap[k], id == r))
		none = verifAnd(none, !verifAnd(snap[k], id > s.x, id < r))
	}
	return verifAnd(isIn, r > s.x, none)
}

func (s *vStream) blocked() {
	// left waiting: no successor of x may exist in the store now
	for k := range s.ids {
		verifAssert(!verifAnd(s.live[k], s.ids[k] > s.x), "blocked-only-while-no-successor-exists")
	}
	verifAssert(!s.cancelled, "returns-once-cancelled-and-woken")
}

func verifHarness_C08_getnext() {
	s := vNewStream()
	n := verifCase(verifParam("initial", 2) + 1)
	for k := 0; k < n; k++ {
		s.add()
	}
	// compaction may already have deleted some of the oldest batches
	nd := verifCase(n + 1)
	if nd == n && n > 0 {
		nd = n - 1 // the tail is never compacted before the call
	}
	for k := 0; k < nd; k++ {
		s.deleteOldest()
	}
	// a position a reader can hold: not newer than the newest id ever added
	s.x = nondetU64()
	verifAssume(s.x <= s.ids[len(s.ids)-1])
	s.budget = verifParam("env", 2)
	s.snapshot()
	verifSetEnv(s.envOps, s.blocked)
	msgs := vRunReader(s)
	// returned: either empty after cancellation, or the successor in some snapshot
	if len(msgs) == 0 {
		verifAssert(s.cancelled, "empty-result-only-after-cancel")
		return
	}
	r := msgs[0].Id.Id
	ok := false
	for _, snap := range s.snaps {
		ok = verifOr(ok, s.successorIn(snap, r))
	}
	verifAssert(ok, "result-is-smallest-successor-in-some-instant")
}

// Get returns exactly what Add stored for as long as it is not deleted.
func verifHarness_C08_get() {
	s := vNewStream()
	n := verifCase(verifParam("initial", 2)+1) + 1
	var added [][]Message
	for k := 0; k < n; k++ {
		s.add()
		m, _ := s.os.Get(robust.Id{Id: s.ids[len(s.ids)-1]})
		added = append(added, m)
	}
	nd := verifCase(n)
	for k := 0; k < nd; k++ {
		s.deleteOldest()
	}
	q := nondetU64()
	got, ok := s.os.Get(robust.Id{Id: q})
	found := false
	for k := 1; k < len(s.ids); k++ {
		hit := verifAnd(s.live[k], s.ids[k] == q)
		found = verifOr(found, hit)
		if len(got) > 0 {
			verifAssert(verifImplies(hit, verifAnd(ok, got[0].Id.Id == s.ids[k], len(got) == len(added[k-1]))), "get-returns-what-was-added")
		} else {
			verifAssert(!hit, "get-finds-stored-batch")
		}
	}
	verifAssert(verifImplies(verifAnd(!found, q != 0), !ok), "get-misses-deleted-or-unknown-batch")
}

// Delete is atomic with respect to readers: while compaction deletes a batch,
// readers (Get, and GetNext on its fast path) run at every point where Delete
// holds no lock at all; once Delete has returned, the batch is gone for every
// later lookup — no reader may have put it back into the cache.
func verifHarness_C08_delete() {
	s := vNewStream()
	n := verifCase(verifParam("initial", 2)) + 2
	for k := 0; k < n; k++ {
		s.add()
	}
	victim := s.ids[1] // compaction deletes the oldest batch
	warm := nondetBool()
	if warm {
		s.os.Get(robust.Id{Id: victim}) // the batch may or may not be cached already
	}
	reads := 0
	verifSetEnv(func() {
		// a reader runs between two lock sections of Delete
		for reads < verifParam("env", 2) && verifCase(3) > 0 {
			reads++
			if verifCase(2) == 0 {
				s.os.Get(robust.Id{Id: victim})
			} else {
				s.os.GetNext(s.ctx, robust.Id{Id: 0}) // successor of the initial batch: the victim, on the fast path
			}
		}
	}, func() {})
	verifCaseLabel("delete-under-readers")
	if err := s.os.Delete(robust.Id{Id: victim}); err != nil {
		verifAssert(false, "delete-no-error")
	}
	verifSetEnv(func() {}, func() {})
	_, ok := s.os.Get(robust.Id{Id: victim})
	verifAssert(!ok, "deleted-batch-is-gone-for-later-lookups")
	next := s.os.GetNext(s.ctx, robust.Id{Id: 0})
	verifAssert(len(next) > 0 && next[0].Id.Id == s.ids[2], "successor-after-delete-is-the-next-stored-batch")
}
