package outputstream

// C18 group (1): an output batch written to the output store decodes to the
// same ids, text and recipient set.  Byte-level: the real marshal /
// unmarshalMessageBatch including encoding/binary are executed symbolically.
func verifHarness_C18_batch() {
	nmsgs := verifCase(verifParam("msgs", 2) + 1)
	maxData := verifParam("data", 3)
	maxRcpt := verifParam("rcpt", 2)
	var b messageBatch
	b.NextID = nondetU64()
	for i := 0; i < nmsgs; i++ {
		var m Message
		m.Id.Id = nondetU64()
		m.Id.Reply = nondetU64()
		m.Data = nondetString(maxData)
		nr := verifCase(maxRcpt + 1)
		m.InterestingFor = make(map[uint64]bool)
		for r := 0; r < nr; r++ {
			k := nondetU64()
			// distinct keys.  The server only ever stores true, and the decoder renders
			// every stored key as true; a false entry is still part of the framing (it is
			// counted and written), so it is allowed here and only its value is exempt
			_, dup := m.InterestingFor[k]
			verifAssume(!dup)
			m.InterestingFor[k] = nondetBool()
		}
		b.Messages = append(b.Messages, m)
	}
	buf := b.marshal()
	got := unmarshalMessageBatch(buf)

	verifAssert(got.NextID == b.NextID, "batch-nextid")
	verifAssert(len(got.Messages) == len(b.Messages), "batch-count")
	for i := 0; i < nmsgs && i < len(got.Messages); i++ {
		w, g := b.Messages[i], got.Messages[i]
		verifAssert(g.Id == w.Id, "batch-msg-id")
		verifAssert(g.Data == w.Data, "batch-msg-data")
		verifAssert(len(g.InterestingFor) == len(w.InterestingFor), "batch-rcpt-count")
		for k, v := range w.InterestingFor {
			gv, ok := g.InterestingFor[k]
			verifAssert(ok, "batch-rcpt-present")
			verifAssert(verifImplies(v, gv), "batch-rcpt-value")
		}
		for k := range g.InterestingFor {
			_, ok := w.InterestingFor[k]
			verifAssert(ok, "batch-rcpt-no-extra")
		}
	}
}
