package outputstream

import (
	"time"

	"github.com/robustirc/robustirc/internal/robust"
)

// native side: the reader runs in its own goroutine; the environment program
// of the tape is executed once the reader is parked (the closest native
// equivalent of "at a yield point").
func vRunReader(s *vStream) []Message {
	type res struct {
		msgs []Message
		pan  interface{}
	}
	ch := make(chan res, 1)
	go func() {
		defer func() {
			if r := recover(); r != nil {
				ch <- res{pan: r}
			}
		}()
		ch <- res{msgs: s.os.GetNext(s.ctx, robust.Id{Id: s.x})}
	}()
	time.Sleep(30 * time.Millisecond)
	for vPos < len(vTape.Draws) && s.budget > 0 {
		before := vPos
		s.envOps()
		if vPos == before {
			break
		}
	}
	select {
	case r := <-ch:
		if r.pan != nil {
			panic(r.pan)
		}
		return r.msgs
	case <-time.After(300 * time.Millisecond):
		s.blocked()
		panic(verifStop{"done", "blocked"})
	}
}
