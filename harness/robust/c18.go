package robust

// C18 group (2): the two protobuf encoders of a replicated message agree on
// every field, and decoding what either encoder (or the legacy JSON encoder)
// produced yields the same message, with the id defaulting to the raft index
// only when it is absent.  The protobuf/JSON libraries themselves are an
// abstract codec; what is decided here is the hand-written field copying.

import (
	"encoding/json"

	"github.com/golang/protobuf/proto"

	pb "github.com/robustirc/robustirc/internal/proto"
)

func vMsg() Message {
	var m Message
	m.Id = Id{Id: nondetU64(), Reply: nondetU64()}
	m.Session = Id{Id: nondetU64(), Reply: nondetU64()}
	m.Type = Type(nondetI64In(0, 8))
	m.Data = nondetString(3)
	m.UnixNano = nondetI64()
	if nondetBool() {
		m.Servers = []string{nondetString(2), nondetString(2)}
	}
	m.Currentmaster = nondetString(2)
	m.ClientMessageId = nondetU64()
	m.Revision = nondetU64()
	m.RemoteAddr = nondetString(2)
	return m
}

func vSame(a, b *Message, index uint64) bool {
	wantId := a.Id.Id
	if wantId == 0 {
		wantId = index
	}
	sameServers := len(a.Servers) == len(b.Servers)
	for k := 0; k < len(a.Servers) && k < len(b.Servers); k++ {
		sameServers = verifAnd(sameServers, a.Servers[k] == b.Servers[k])
	}
	return verifAnd(b.Id.Id == wantId, b.Id.Reply == a.Id.Reply, a.Session == b.Session, a.Type == b.Type, a.Data == b.Data,
		a.UnixNano == b.UnixNano, sameServers, a.Currentmaster == b.Currentmaster, a.ClientMessageId == b.ClientMessageId,
		a.Revision == b.Revision, a.RemoteAddr == b.RemoteAddr)
}

func verifHarness_C18_message() {
	m := vMsg()
	index := nondetU64()
	verifAssume(index != 0)
	// the network-wide id offset (-message_offset) is arbitrary: callers pass an id that already
	// includes it, so decoding must not depend on it
	MessageOffset = nondetU64()
	// both protobuf encoders agree field by field
	a := m.ProtoMessage()
	b := &pb.RobustMessage{Id: &pb.RobustId{}, Session: &pb.RobustId{}}
	// the destination is reused between messages (LevelDBStore.ConvertToProto): whatever it
	// held before, it must afterwards describe m and nothing else
	other := vMsg()
	other.CopyToProtoMessage(b)
	m.CopyToProtoMessage(b)
	verifAssert(verifDeepEq(a, b, "skip=RobustMessage.state,RobustMessage.sizeCache,RobustMessage.unknownFields,RobustId.state,RobustId.sizeCache,RobustId.unknownFields;nileqempty"), "both-protobuf-encoders-agree")
	// protobuf round trip
	enc := verifCase(3)
	var data []byte
	switch enc {
	case 0:
		v, err := proto.Marshal(a)
		verifAssume(err == nil)
		data = append([]byte{'p'}, v...)
		verifCaseLabel("ProtoMessage")
	case 1:
		v, err := proto.Marshal(b)
		verifAssume(err == nil)
		data = append([]byte{'p'}, v...)
		verifCaseLabel("CopyToProtoMessage")
	case 2:
		v, err := json.Marshal(&m)
		verifAssume(err == nil)
		data = v
		verifCaseLabel("JSON")
	}
	got := NewMessageFromBytes(data, index)
	verifAssert(vSame(&m, &got, index), "decoded-message-equals-encoded-message")
	verifAssert(verifImplies(m.Id.Id != 0, got.Id.Id == m.Id.Id), "explicit-id-is-kept")
	verifAssert(verifImplies(m.Id.Id == 0, got.Id.Id == index), "absent-id-defaults-to-raft-index")
}
