package raftlog

// C18 group (3): a raft log entry written by the store is decoded identically
// by the shared decoder (index, term, type, data, extensions, append time).

import (
	"encoding/json"
	"time"

	"github.com/golang/protobuf/proto"
	"github.com/hashicorp/raft"
	"google.golang.org/protobuf/types/known/timestamppb"

	pb "github.com/robustirc/robustirc/internal/proto"
)

func verifHarness_C18_raftlog() {
	var l raft.Log
	l.Index = nondetU64()
	l.Term = nondetU64()
	l.Type = raft.LogType(nondetU8())
	l.Data = []byte(nondetString(3))
	l.Extensions = []byte(nondetString(2))
	l.AppendedAt = time.Unix(0, nondetI64In(-(1 << 60), 1<<60))
	var data []byte
	if nondetBool() {
		v, err := proto.Marshal(&pb.RaftLog{Index: l.Index, Term: l.Term, Type: pb.RaftLog_LogType(l.Type), Data: l.Data, Extensions: l.Extensions, AppendedAt: timestamppb.New(l.AppendedAt)})
		verifAssume(err == nil)
		data = append([]byte{'p'}, v...)
		verifCaseLabel("protobuf")
	} else {
		v, err := json.Marshal(&l)
		verifAssume(err == nil)
		data = v
		verifCaseLabel("json")
	}
	got, err := FromBytes(data)
	verifAssert(err == nil, "stored-entry-decodes")
	if err != nil {
		return
	}
	verifAssert(verifAnd(got.Index == l.Index, got.Term == l.Term, got.Type == l.Type, string(got.Data) == string(l.Data),
		string(got.Extensions) == string(l.Extensions), got.AppendedAt.Equal(l.AppendedAt)), "decoder-returns-the-stored-entry")
	_, err = FromBytes(nil)
	verifAssert(err != nil, "empty-value-is-an-error")
}
