package main

// C02 (bookkeeping of compaction): the real FSM.Snapshot over a LevelDB-model
// log store.  The IRC state itself is abstracted to the *set of entries it
// folds* (ghost), carried by stubs of Unmarshal / applyRobustMessage /
// Marshal; what is checked is which entries are folded, which are deleted
// from the log copy and the output store, and under which key the folded
// state is filed for the next snapshot.

import (
	"time"

	"github.com/golang/protobuf/proto"
	"github.com/hashicorp/raft"
	"github.com/robustirc/robustirc/internal/ircserver"
	"github.com/robustirc/robustirc/internal/outputstream"
	"github.com/robustirc/robustirc/internal/raftstore"
	"github.com/robustirc/robustirc/internal/robust"
	"google.golang.org/protobuf/types/known/timestamppb"

	pb "github.com/robustirc/robustirc/internal/proto"
)

type vFoldSet struct {
	base  bool   // folds everything that was applied before the stored entries
	slots []bool // folds stored entry k
}

var (
	vFoldOf      map[*ircserver.IRCServer]*vFoldSet // ghost state of every IRCServer instance
	vStateTable  []*vFoldSet                        // serialized states: blob {tag} -> fold set
	vEntryIdx    []uint64                           // raft index of stored entry k
	vOutDeleted  []robust.Id                        // ids deleted from the output stream
	vUnmarshalOK bool
)

func vFoldFor(i *ircserver.IRCServer) *vFoldSet {
	if f, ok := vFoldOf[i]; ok {
		return f
	}
	f := &vFoldSet{slots: make([]bool, len(vEntryIdx))}
	vFoldOf[i] = f
	return f
}

func verifStub_Unmarshal(i *ircserver.IRCServer, data []byte) (uint64, error) {
	src := vStateTable[int(data[0])]
	f := vFoldFor(i)
	f.base = src.base
	copy(f.slots, src.slots)
	return 0, nil
}

func verifStub_Marshal(i *ircserver.IRCServer, lastIncludedIndex uint64) ([]byte, error) {
	f := vFoldFor(i)
	cp := &vFoldSet{base: f.base, slots: append([]bool{}, f.slots...)}
	vStateTable = append(vStateTable, cp)
	return []byte{byte(len(vStateTable) - 1)}, nil
}

func verifStub_foldEntry(fsm *FSM, msg *robust.Message, i *ircserver.IRCServer, o *outputstream.OutputStream) error {
	f := vFoldFor(i)
	for k := range vEntryIdx {
		f.slots[k] = verifOr(f.slots[k], msg.Id.Id == vEntryIdx[k])
	}
	return nil
}

func verifStub_outDelete(o *outputstream.OutputStream, id robust.Id) error {
	vOutDeleted = append(vOutDeleted, id)
	return nil
}

func vStoreEntry(s *raftstore.LevelDBStore, idx uint64, unixNano int64) {
	// any replicated entry type, including entries already marked as message of death
	m := robust.Message{Session: robust.Id{Id: 1}, Type: robust.Type(nondetI64In(0, 6)), Data: "PING", UnixNano: unixNano}
	data, err := proto.Marshal(m.ProtoMessage())
	verifAssume(err == nil)
	l := &pb.RaftLog{Index: idx, Term: 1, Type: pb.RaftLog_LogType(raft.LogCommand), Data: append([]byte{'p'}, data...), AppendedAt: timestamppb.New(time.Unix(0, 0))}
	verifAssume(s.StoreLogProto(l) == nil)
}

func verifHarness_C02_snapshot() { vSnapshotScenario(false) }

// C07 (snapshot in between): entries already marked as message of death are
// folded into the compacted state like every other entry (their only effect,
// advancing the duplicate-detection marker, must survive snapshot + restore).
func verifHarness_C07_snapshot() { vSnapshotScenario(true) }

func vSnapshotScenario(markedOnly bool) {
	vFoldOf = make(map[*ircserver.IRCServer]*vFoldSet)
	vStateTable, vEntryIdx, vOutDeleted = nil, nil, nil
	n := verifCase(verifParam("entries", 3)) + 1
	ircstore, err := raftstore.NewLevelDBStore(vTempDir(), false, true)
	verifAssume(err == nil)
	// stored entries at increasing raft indexes (gaps allowed: raft-internal entries are not stored)
	prev := uint64(0)
	ts := make([]int64, n)
	for k := 0; k < n; k++ {
		idx := nondetU64()
		verifAssume(idx > prev)
		verifAssume(idx < 1<<40)
		prev = idx
		vEntryIdx = append(vEntryIdx, idx)
		ts[k] = nondetI64In(1, 1<<60)
		vStoreEntry(ircstore, idx, ts[k])
	}
	first := vEntryIdx[0]
	// bookkeeping invariant: the state the next snapshot loads is filed under first-1
	// and folds exactly what was applied before the stored entries
	vStateTable = append(vStateTable, &vFoldSet{base: true, slots: make([]bool, n)})
	fsm := &FSM{ircstore: ircstore, lastSnapshotState: map[uint64][]byte{first - 1: {0}}}
	fsm.sessionExpirationDur = time.Duration(nondetI64In(0, 1<<50))
	verifCaseLabel("entries=" + vB3(n))

	snap, serr := fsm.Snapshot()
	verifAssert(serr == nil, "snapshot-succeeds")
	if serr != nil {
		return
	}
	rs := snap.(*robustSnapshot)
	final := vStateTable[int(rs.state[0])]
	if markedOnly {
		for k := 0; k < n; k++ {
			var l raft.Log
			gone := ircstore.GetLog(vEntryIdx[k], &l) != nil
			verifAssert(verifImplies(gone, final.slots[k]), "compacted-entries-including-marked-ones-are-folded-into-the-state")
		}
		return
	}
	verifAssert(final.base, "snapshot-state-keeps-the-older-history")
	// (a) folded = deleted from the log copy = deleted from the output store; retained = neither
	for k := 0; k < n; k++ {
		var l raft.Log
		gone := ircstore.GetLog(vEntryIdx[k], &l) != nil
		verifAssert(gone == final.slots[k], "entry-deleted-from-log-copy-iff-folded")
		inOut := false
		for _, d := range vOutDeleted {
			inOut = verifOr(inOut, d.Id == vEntryIdx[k])
		}
		verifAssert(inOut == final.slots[k], "entry-deleted-from-output-store-iff-folded")
		// only entries older than the horizon are folded
		verifAssert(verifImplies(final.slots[k], !time.Unix(0, ts[k]).After(rs.compactionEnd)), "only-entries-older-than-the-horizon-are-folded")
	}
	// (b) the folded state is found again by the next snapshot: after one more entry was
	// applied (at any later index), the state filed under (first stored index - 1) exists and
	// folds exactly the applied entries that are not stored any more
	j := nondetU64()
	verifAssume(j > prev)
	verifAssume(j < 1<<41)
	vStoreEntry(ircstore, j, nondetI64In(1, 1<<60))
	first2, ferr := ircstore.FirstIndex()
	verifAssert(ferr == nil, "firstindex-no-error")
	blob, ok := fsm.lastSnapshotState[first2-1]
	allFolded := true
	for k := 0; k < n; k++ {
		allFolded = verifAnd(allFolded, final.slots[k])
	}
	if allFolded {
		verifAssert(ok, "next-snapshot-finds-the-folded-state:every-stored-entry-folded")
	} else {
		verifAssert(ok, "next-snapshot-finds-the-folded-state:some-entry-retained")
	}
	if ok {
		next := vStateTable[int(blob[0])]
		for k := 0; k < n; k++ {
			verifAssert(next.slots[k] == final.slots[k], "next-snapshot-starts-from-the-folded-state")
		}
		verifAssert(next.base, "next-snapshot-starts-from-the-folded-state")
	}
}

func vB3(n int) string { return string(rune('0' + n)) }
