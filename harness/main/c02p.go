package main

// C02 (persist and restore): after the real FSM.Snapshot, the real
// robustSnapshot.Persist writes the snapshot into a recording sink and the
// real FSM.decodeProtobuf reads it back on a fresh node.  The restored node
// must end with everything folded: the serialized state it loads is the
// snapshot's, the entries it re-applies are exactly the retained ones (each
// once, in index order), and its log copy holds exactly the retained entries.

import (
	"errors"
	"time"

	"github.com/hashicorp/raft"
	"github.com/robustirc/robustirc/internal/ircserver"
	"github.com/robustirc/robustirc/internal/raftstore"
)

type vSink struct {
	chunks [][]byte
	failAt int // the failAt-th Write fails (0: none)
	failed bool
}

func (s *vSink) Write(p []byte) (int, error) {
	if s.failAt > 0 && len(s.chunks)+1 == s.failAt {
		s.failed = true
		return 0, errSinkFull
	}
	if s.failed {
		return 0, errSinkFull
	}
	s.chunks = append(s.chunks, p)
	return len(p), nil
}

var errSinkFull = errors.New("write: no space left on device")
func (s *vSink) Close() error  { return nil }
func (s *vSink) ID() string    { return "verif" }
func (s *vSink) Cancel() error { return nil }

var _ raft.SnapshotSink = (*vSink)(nil)

func verifHarness_C02_persist_restore() {
	vFoldOf = make(map[*ircserver.IRCServer]*vFoldSet)
	vStateTable, vEntryIdx, vOutDeleted = nil, nil, nil
	yes := true
	useProtobuf = &yes
	n := verifCase(verifParam("entries", 2)) + 1
	ircstore, err := raftstore.NewLevelDBStore(vTempDir(), false, true)
	verifAssume(err == nil)
	prev := uint64(0)
	for k := 0; k < n; k++ {
		idx := nondetU64()
		verifAssume(idx > prev)
		verifAssume(idx < 1<<40)
		prev = idx
		vEntryIdx = append(vEntryIdx, idx)
		vStoreEntry(ircstore, idx, nondetI64In(1, 1<<60))
	}
	first := vEntryIdx[0]
	vStateTable = append(vStateTable, &vFoldSet{base: true, slots: make([]bool, n)})
	fsm := &FSM{ircstore: ircstore, lastSnapshotState: map[uint64][]byte{first - 1: {0}}}
	fsm.sessionExpirationDur = time.Duration(nondetI64In(0, 1<<50))
	verifCaseLabel("persist-restore entries=" + vB3(n))

	snap, serr := fsm.Snapshot()
	verifAssume(serr == nil)
	rs := snap.(*robustSnapshot)
	final := vStateTable[int(rs.state[0])]
	retained := make([]bool, n)
	for k := 0; k < n; k++ {
		var l raft.Log
		retained[k] = ircstore.GetLog(vEntryIdx[k], &l) == nil
	}

	// the sink may fail at any of its writes (disk full): raft finalises the snapshot unless Persist reports it
	sink := &vSink{failAt: verifCase(2*n + 4)}
	perr := rs.Persist(sink)
	if sink.failed {
		verifAssert(perr != nil, "failed-snapshot-write-is-reported")
		return
	}
	verifAssert(perr == nil, "persist-succeeds")
	if perr != nil {
		return
	}

	// a fresh node restores from what was written
	store2, err := raftstore.NewLevelDBStore(vTempDir(), false, true)
	verifAssume(err == nil)
	fsm2 := &FSM{ircstore: store2, lastSnapshotState: make(map[uint64][]byte)}
	ircServer = ircserver.NewIRCServer("robustirc.net", time.Unix(0, 1))
	restored := vFoldFor(ircServer)
	derr := fsm2.decodeProtobuf(verifChunkReader(sink.chunks))
	verifAssert(derr == nil, "restore-succeeds")
	if derr != nil {
		return
	}
	// the restored node has folded everything: the snapshot state plus the re-applied retained entries
	verifAssert(restored.base, "restored-state-keeps-the-older-history")
	for k := 0; k < n; k++ {
		verifAssert(restored.slots[k], "every-entry-is-in-the-restored-state")
		verifAssert(verifImplies(final.slots[k], !retained[k]), "folded-entries-are-not-retained")
		var l raft.Log
		has := store2.GetLog(vEntryIdx[k], &l) == nil
		verifAssert(has == retained[k], "restored-log-copy-holds-exactly-the-retained-entries")
	}
	f2, _ := store2.FirstIndex()
	l2, _ := store2.LastIndex()
	any := false
	for k := 0; k < n; k++ {
		any = verifOr(any, retained[k])
	}
	verifAssert(verifImplies(!any, f2 == 0 && l2 == 0), "restored-log-copy-holds-nothing-else")
	verifAssert(len(fsm2.lastSnapshotState) == 1, "restored-node-files-the-snapshot-state")
}
