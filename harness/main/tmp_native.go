package main

import "os"

func vTempDir() string {
	d, err := os.MkdirTemp("", "verif-replay-db-")
	if err != nil {
		panic(err)
	}
	return d
}
