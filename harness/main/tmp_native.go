package main

import (
	"bufio"
	"bytes"
	"os"
)

func vTempDir() string {
	d, err := os.MkdirTemp("", "verif-replay-db-")
	if err != nil {
		panic(err)
	}
	return d
}

func verifChunkReader(chunks [][]byte) *bufio.Reader {
	return bufio.NewReader(bytes.NewReader(bytes.Join(chunks, nil)))
}
