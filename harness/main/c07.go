package main

// C07: a message of death is marked durably (exactly that entry, in the raft
// log store, same index/term/type, same message with Type = MessageOfDeath),
// then the process terminates; without a panic nothing is written.

import (
	"encoding/json"
	"time"

	"github.com/golang/protobuf/proto"
	"github.com/hashicorp/raft"
	"github.com/robustirc/robustirc/internal/ircserver"
	"github.com/robustirc/robustirc/internal/outputstream"
	"github.com/robustirc/robustirc/internal/raftstore"
	"github.com/robustirc/robustirc/internal/robust"

	pb "github.com/robustirc/robustirc/internal/proto"
)

var vPanicNow bool

// verifStub_applyRobustMessage stands for the state machine step: it may panic.
func verifStub_applyRobustMessage(fsm *FSM, msg *robust.Message, i *ircserver.IRCServer, o *outputstream.OutputStream) error {
	if vPanicNow {
		panic("state machine step panicked")
	}
	return nil
}

func vMessage() robust.Message {
	var m robust.Message
	m.Id = robust.Id{Id: nondetU64(), Reply: nondetU64()}
	m.Session = robust.Id{Id: nondetU64(), Reply: nondetU64()}
	m.Type = robust.Type(nondetI64In(0, 8))
	m.Data = nondetString(3)
	m.UnixNano = nondetI64()
	m.ClientMessageId = nondetU64()
	m.Revision = nondetU64()
	m.RemoteAddr = nondetString(2)
	m.Currentmaster = nondetString(2)
	return m
}

func vSameMessage(a, b *robust.Message) bool {
	return verifAnd(a.Id == b.Id, a.Session == b.Session, a.Data == b.Data, a.UnixNano == b.UnixNano,
		a.ClientMessageId == b.ClientMessageId, a.Revision == b.Revision, a.RemoteAddr == b.RemoteAddr, a.Currentmaster == b.Currentmaster)
}

// C10: the duplicate-detection marker survives the marking of a message of
// death: the rewritten entry still carries the client message id.
func verifHarness_C10_marked() { vMarkScenario(true) }

func verifHarness_C07_mark() { vMarkScenario(false) }

func vMarkScenario(markerOnly bool) {
	store, err := raftstore.NewLevelDBStore(vTempDir(), false, true)
	verifAssume(err == nil)
	ircstore, err := raftstore.NewLevelDBStore(vTempDir(), false, true)
	verifAssume(err == nil)
	fsm := &FSM{store: store, ircstore: ircstore}

	orig := vMessage()
	verifAssume(orig.Id.Id != 0)
	msg := orig
	useProto := nondetBool()
	l := &pb.RaftLog{Index: nondetU64(), Term: nondetU64(), Type: pb.RaftLog_LogType(raft.LogCommand)}
	verifAssume(l.Index > 0 && l.Index < 0x7300000000000000)
	if useProto {
		data, err := proto.Marshal(msg.ProtoMessage())
		verifAssume(err == nil)
		l.Data = append([]byte{'p'}, data...)
	} else {
		data, err := json.Marshal(&msg)
		verifAssume(err == nil)
		l.Data = data
	}
	index, term := l.Index, l.Term
	vPanicNow = nondetBool()
	// the MessageOfDeath branch of the real step cannot panic (verifHarness_C07_replay)
	verifAssume(verifOr(!vPanicNow, orig.Type != robust.MessageOfDeath))
	verifCaseLabel("panic=" + vB(vPanicNow) + " proto=" + vB(useProto))
	if !vPanicNow {
		// only matters for native replays, where the real step runs instead of the stub:
		// with a server it returns normally, without one it panics
		ircServer = ircserver.NewIRCServer("robustirc.net", time.Unix(0, 1))
		outputStream, _ = outputstream.NewOutputStream("")
	} else {
		ircServer, outputStream = nil, nil
	}

	verifOnExit(func() {
		// the process is about to terminate: this must be the marking path
		verifAssert(vPanicNow, "exit-only-after-a-panic")
		verifAssert(orig.Type != robust.MessageOfDeath, "already-marked-entries-are-not-rewritten")
		first, e1 := store.FirstIndex()
		last, e2 := store.LastIndex()
		verifAssert(verifAnd(e1 == nil, e2 == nil, first == index, last == index), "exactly-the-crashing-entry-is-marked")
		var got raft.Log
		gerr := store.GetLog(index, &got)
		verifAssert(gerr == nil, "marked-entry-readable")
		verifAssert(verifAnd(got.Index == index, got.Term == term, got.Type == raft.LogCommand), "marked-entry-keeps-index-term-type")
		verifAssert(verifImplies(len(got.Data) > 0, (got.Data[0] == 'p') == useProto), "marked-entry-keeps-its-encoding")
		m := robust.NewMessageFromBytes(got.Data, index)
		if markerOnly {
			verifAssert(verifAnd(m.ClientMessageId == orig.ClientMessageId, m.Session == orig.Session), "marked-entry-keeps-session-and-client-message-id")
			return
		}
		verifAssert(m.Type == robust.MessageOfDeath, "marked-entry-decodes-as-message-of-death")
		verifAssert(vSameMessage(&m, &orig), "marked-entry-keeps-the-message")
		f2, _ := ircstore.FirstIndex()
		verifAssert(f2 == 0, "irc-log-store-untouched")
	})
	res := fsm.applyProto(l, &msg)
	if markerOnly {
		verifAssert(verifOr(!vPanicNow, orig.Type == robust.MessageOfDeath), "panic-terminates-the-process")
		return
	}
	// returned normally: no panic reached the marker (or the entry was already a message of death)
	verifAssert(verifOr(!vPanicNow, orig.Type == robust.MessageOfDeath), "panic-terminates-the-process")
	verifAssert(res == nil, "result-is-the-step-result")
	first, _ := store.FirstIndex()
	verifAssert(first == 0, "no-marking-without-panic")
	verifAssert(msg.Type == orig.Type, "type-unchanged-without-panic")
}

func vB(b bool) string {
	if b {
		return "1"
	}
	return "0"
}

// C07 / C02 (log copy): FSM.Apply stores every command entry it is given in
// the IRC log copy before executing it — also an entry that is already marked
// as message of death (a restart replays the raft log through Apply; the copy
// in irclog/ is what snapshots fold and carry).
func verifHarness_C07_apply() {
	store, err := raftstore.NewLevelDBStore(vTempDir(), false, true)
	verifAssume(err == nil)
	ircstore, err := raftstore.NewLevelDBStore(vTempDir(), false, true)
	verifAssume(err == nil)
	fsm := &FSM{store: store, ircstore: ircstore}
	yes := true
	useProtobuf = &yes
	msg := vMessage()
	verifAssume(msg.Id.Id != 0)
	data, merr := proto.Marshal(msg.ProtoMessage())
	verifAssume(merr == nil)
	l := &raft.Log{Index: nondetU64(), Term: nondetU64(), Type: raft.LogCommand, Data: append([]byte{'p'}, data...)}
	verifAssume(l.Index > 0 && l.Index < 0x7300000000000000)
	vPanicNow = false
	ircServer = ircserver.NewIRCServer("robustirc.net", time.Unix(0, 1))
	outputStream, _ = outputstream.NewOutputStream("")
	verifCaseLabel("apply type-is-message-of-death=" + vB(msg.Type == robust.MessageOfDeath))
	fsm.Apply(l)
	var got raft.Log
	gerr := ircstore.GetLog(l.Index, &got)
	verifAssert(gerr == nil, "applied-entry-is-in-the-log-copy")
	if gerr == nil {
		m := robust.NewMessageFromBytes(got.Data, l.Index)
		verifAssert(verifAnd(got.Index == l.Index, got.Term == l.Term, m.Type == msg.Type, vSameMessage(&m, &msg)), "log-copy-holds-the-entry-as-applied")
	}
}

// C07 (replay half, real code): FSM.applyRobustMessage on an entry that is
// marked as message of death has no effect except that the session's
// duplicate-detection marker advances — on the live path (output stream
// present) and on the compaction replay of FSM.Snapshot (temporary server,
// nil output stream) alike, so that a retry of the poisonous message is
// refused after a restore from the snapshot too.
func verifHarness_C07_modreplay() {
	i := ircserver.NewIRCServer("robustirc.net", time.Unix(0, 1))
	sid := robust.Id{Id: nondetU64()}
	verifAssume(sid.Id != 0)
	verifAssume(i.CreateSession(sid, "auth", time.Unix(0, 2)) == nil)
	var o *outputstream.OutputStream
	live := nondetBool()
	if live {
		o, _ = outputstream.NewOutputStream("")
	}
	msg := vMessage()
	msg.Type = robust.MessageOfDeath
	msg.Session = sid
	fsm := &FSM{}
	verifCaseLabel("message-of-death live=" + vB(live))
	verifAssert(fsm.applyRobustMessage(&msg, i, o) == nil, "message-of-death-step-returns-no-error")
	verifAssert(i.LastPostMessage(sid) == msg.ClientMessageId, "message-of-death-advances-the-duplicate-marker")
	_, serr := i.GetSession(sid)
	verifAssert(serr == nil, "message-of-death-keeps-the-session")
}
