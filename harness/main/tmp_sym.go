package main

func vTempDir() string { return "/tmp/verif-model-dir" }
