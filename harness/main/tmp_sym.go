package main

import "bufio"

func vTempDir() string { return "/tmp/verif-model-dir" }

// verifChunkReader returns a reader over the concatenation of the chunks (the
// byte strings one Write call each handed to a sink).
func verifChunkReader(chunks [][]byte) *bufio.Reader
