package main

// C16 (b): the Config case of the state machine step: a parse error changes
// nothing; a parsed update replaces the configuration with exactly the parsed
// value at the entry's revision and updates the compaction horizon source.

import (
	"errors"
	"time"

	"github.com/BurntSushi/toml"
	"github.com/robustirc/robustirc/internal/config"
	"github.com/robustirc/robustirc/internal/ircserver"
	"github.com/robustirc/robustirc/internal/robust"
)

var (
	vParsed   config.Network
	vParseErr error
)

// verifStub_tomlDecode stands for the TOML decoder (a function of its input);
// config.FromString itself is the real code.
func verifStub_tomlDecode(data string, v interface{}) (toml.MetaData, error) {
	*(v.(*config.Network)) = vParsed
	return toml.MetaData{}, vParseErr
}

func vNetwork() config.Network {
	var c config.Network
	c.Revision = nondetU64()
	c.IRC.Operators = []config.IRCOp{{Name: nondetString(2), Password: nondetString(2)}}
	c.SessionExpiration = config.Duration(nondetI64In(0, 1<<50))
	c.PostMessageCooloff = config.Duration(nondetI64In(0, 1<<40))
	c.CaptchaURL = nondetString(2)
	c.CaptchaRequiredForLogin = nondetBool()
	c.MaxSessions = nondetU64()
	c.MaxChannels = nondetU64()
	if nondetBool() {
		c.Banned = map[string]string{nondetString(2): nondetString(2)}
	}
	c.TrustedBridges = map[string]string{nondetString(2): nondetString(2)}
	c.WhitelistedOrigins = map[string]bool{nondetString(2): true}
	return c
}

func verifHarness_C16_apply() {
	i := ircserver.NewIRCServer("robustirc.net", time.Unix(0, 1420070400000000000))
	i.Config = vNetwork()
	pre := i.Config
	fsm := &FSM{sessionExpirationDur: time.Duration(nondetI64In(0, 1<<50))}
	preDur := fsm.sessionExpirationDur
	vParsed = vNetwork()
	ok := nondetBool()
	vParseErr = nil
	if !ok {
		vParseErr = errors.New("toml: parse error")
	}
	msg := &robust.Message{Id: robust.Id{Id: nondetU64()}, Type: robust.Config, Data: nondetString(3), Revision: nondetU64()}
	verifCaseLabel("config parses=" + vB(ok))
	err := fsm.applyRobustMessage(msg, i, nil)
	verifAssert(err == nil, "config-entry-never-fails-the-step")
	if !ok {
		verifAssert(verifDeepEq(i.Config, pre, ""), "unparsable-config-changes-nothing")
		verifAssert(fsm.sessionExpirationDur == preDur, "unparsable-config-keeps-expiration")
		return
	}
	want := vParsed
	want.Revision = msg.Revision
	verifAssert(verifDeepEq(i.Config, want, "nileqempty"), "accepted-config-is-the-parsed-value-at-the-entry-revision")
	verifAssert(i.Config.Banned != nil, "accepted-config-has-a-ban-list")
	verifAssert(fsm.sessionExpirationDur == time.Duration(vParsed.SessionExpiration), "accepted-config-updates-expiration")
	// the installed configuration is this replica's own: a ban recorded in it (GLINE) must not
	// leak into package-level defaults or into configurations installed later
	probe := nondetString(2)
	verifAssume(config.DefaultConfig.Banned[probe] == "")
	i.Config.Banned[probe] = "gline"
	verifAssert(config.DefaultConfig.Banned[probe] == "", "installed-config-does-not-share-state-with-defaults")
	later, lerr := config.FromString(nondetString(3))
	verifAssert(verifImplies(lerr == nil, later.Banned[probe] == vParsed.Banned[probe] || vParsed.Banned == nil), "later-configs-do-not-inherit-recorded-bans")
	if lerr == nil && vParsed.Banned == nil {
		verifAssert(later.Banned[probe] == "", "later-configs-do-not-inherit-recorded-bans")
	}
}
