package raftstore

// C09: the LevelDB store honours raft's LogStore / StableStore contracts.
// Refinement step: from an arbitrary store content that corresponds to an
// abstract (index -> entry, key -> bytes) pair, every operation answers what
// the abstract pair answers and leaves the correspondence intact.

import (
	"encoding/binary"
	"encoding/json"
	"time"

	"github.com/golang/protobuf/proto"
	"github.com/hashicorp/raft"
	"google.golang.org/protobuf/types/known/timestamppb"

	pb "github.com/robustirc/robustirc/internal/proto"
)

type vEntry struct {
	present bool
	log     raft.Log
}

type vStable struct {
	present bool
	name    string
	val     string
}

const vMaxIndex = uint64(0x7300000000000000)

func vKey(idx uint64) []byte {
	k := make([]byte, 8)
	binary.BigEndian.PutUint64(k, idx)
	return k
}

func vNewEntry() raft.Log {
	var l raft.Log
	l.Index = nondetU64()
	verifAssume(l.Index < vMaxIndex)
	l.Term = nondetU64()
	l.Type = raft.LogType(nondetU8())
	l.Data = []byte(nondetString(2))
	l.Extensions = []byte(nondetString(1))
	// entries from peers that do not stamp their entries carry the zero time
	l.AppendedAt = verifIteT(nondetBool(), time.Unix(0, nondetI64In(-(1<<60), 1<<60)), time.Time{})
	return l
}

func vEncode(l *raft.Log, useProto bool) []byte {
	if useProto {
		var msg pb.RaftLog
		msg.Index = l.Index
		msg.Term = l.Term
		msg.Type = pb.RaftLog_LogType(l.Type)
		msg.Data = l.Data
		msg.Extensions = l.Extensions
		msg.AppendedAt = timestamppb.New(l.AppendedAt)
		v, err := proto.Marshal(&msg)
		verifAssume(err == nil)
		return append([]byte{'p'}, v...)
	}
	v, err := json.Marshal(l)
	verifAssume(err == nil)
	return v
}

func vSameLog(a, b *raft.Log) bool {
	return verifAnd(a.Index == b.Index, a.Term == b.Term, a.Type == b.Type,
		string(a.Data) == string(b.Data), string(a.Extensions) == string(b.Extensions), a.AppendedAt.Equal(b.AppendedAt))
}

type vStoreState struct {
	s       *LevelDBStore
	entries []vEntry
	stable  []vStable
}

func vBuildStore(useProto bool) *vStoreState {
	st := &vStoreState{s: &LevelDBStore{db: verifNewLevelDB(), useProtobuf: useProto, dir: "model"}}
	n := verifParam("entries", 3)
	for k := 0; k < n; k++ {
		e := vEntry{present: nondetBool(), log: vNewEntry()}
		for _, o := range st.entries {
			verifAssume(o.log.Index != e.log.Index)
		}
		st.entries = append(st.entries, e)
		verifLevelDBPutIf(st.s.db, vKey(e.log.Index), vEncode(&e.log, useProto), e.present)
	}
	m := verifParam("stable", 2)
	for k := 0; k < m; k++ {
		sv := vStable{present: nondetBool(), name: nondetString(2), val: nondetString(2)}
		for _, o := range st.stable {
			verifAssume(o.name != sv.name)
		}
		st.stable = append(st.stable, sv)
		verifLevelDBPutIf(st.s.db, append([]byte("stablestore-"), sv.name...), []byte(sv.val), sv.present)
	}
	return st
}

// vProbe checks that the store answers like the abstract pair.
func vProbe(st *vStoreState, tag string) {
	s := st.s
	// first / last index
	wantFirst, wantLast := uint64(0), uint64(0)
	any := false
	for _, e := range st.entries {
		lower := verifAnd(e.present, verifOr(!any, e.log.Index < wantFirst))
		higher := verifAnd(e.present, verifOr(!any, e.log.Index > wantLast))
		wantFirst = verifIteU(lower, e.log.Index, wantFirst)
		wantLast = verifIteU(higher, e.log.Index, wantLast)
		any = verifOr(any, e.present)
	}
	first, err := s.FirstIndex()
	verifAssert(err == nil, tag+"-firstindex-no-error")
	verifAssert(first == wantFirst, tag+"-firstindex")
	last, err := s.LastIndex()
	verifAssert(err == nil, tag+"-lastindex-no-error")
	verifAssert(last == wantLast, tag+"-lastindex")
	// lookup of an arbitrary index
	q := nondetU64()
	verifAssume(q < vMaxIndex)
	var got raft.Log
	gerr := s.GetLog(q, &got)
	found := false
	for k := range st.entries {
		e := &st.entries[k]
		hit := verifAnd(e.present, e.log.Index == q)
		found = verifOr(found, hit)
		verifAssert(verifImplies(verifAnd(hit, gerr == nil), vSameLog(&got, &e.log)), tag+"-getlog-returns-stored-entry")
	}
	verifAssert(verifImplies(found, gerr == nil), tag+"-getlog-finds-stored-entry")
	verifAssert(verifImplies(!found, gerr == raft.ErrLogNotFound), tag+"-getlog-not-found-error")
	// stable store
	name := nondetString(2)
	v, serr := s.Get([]byte(name))
	verifAssert(serr == nil, tag+"-stable-get-no-error")
	sfound := false
	for _, sv := range st.stable {
		hit := verifAnd(sv.present, sv.name == name)
		sfound = verifOr(sfound, hit)
		verifAssert(verifImplies(hit, string(v) == sv.val), tag+"-stable-get-returns-last-write")
	}
	verifAssert(verifImplies(!sfound, v == nil), tag+"-stable-get-missing-is-nil")
}

func verifHarness_C09() {
	useProto := nondetBool()
	op := verifCase(8)
	st := vBuildStore(useProto)
	s := st.s
	switch op {
	case 0:
		verifCaseLabel("probe")
	case 1:
		verifCaseLabel("StoreLogs")
		a, b := vNewEntry(), vNewEntry()
		verifAssume(a.Index != b.Index)
		n := verifCase(2) + 1
		logs := []*raft.Log{&a}
		if n == 2 {
			logs = append(logs, &b)
		}
		verifAssert(s.StoreLogs(logs) == nil, "storelogs-no-error")
		for _, l := range logs {
			for k := range st.entries {
				// overwriting an index replaces the entry
				st.entries[k].present = verifAnd(st.entries[k].present, st.entries[k].log.Index != l.Index)
			}
		}
		for _, l := range logs {
			st.entries = append(st.entries, vEntry{present: true, log: *l})
		}
	case 2:
		verifCaseLabel("DeleteRange")
		min, max := nondetU64(), nondetU64()
		verifAssume(max < vMaxIndex)
		verifAssert(s.DeleteRange(min, max) == nil, "deleterange-no-error")
		for k := range st.entries {
			idx := st.entries[k].log.Index
			st.entries[k].present = verifAnd(st.entries[k].present, !verifAnd(min <= idx, idx <= max))
		}
	case 3:
		verifCaseLabel("Set")
		name, val := nondetString(2), nondetString(2)
		verifAssert(s.Set([]byte(name), []byte(val)) == nil, "set-no-error")
		for k := range st.stable {
			st.stable[k].present = verifAnd(st.stable[k].present, st.stable[k].name != name)
		}
		st.stable = append(st.stable, vStable{present: true, name: name, val: val})
	case 4:
		verifCaseLabel("SetUint64")
		name, val := nondetString(2), nondetU64()
		verifAssert(s.SetUint64([]byte(name), val) == nil, "setuint64-no-error")
		got, err := s.GetUint64([]byte(name))
		verifAssert(err == nil, "getuint64-no-error")
		verifAssert(got == val, "getuint64-returns-last-write")
		other := nondetString(2)
		verifAssume(other != name)
		pre := false
		for _, sv := range st.stable {
			pre = verifOr(pre, verifAnd(sv.present, sv.name == other))
		}
		// reading a key as uint64 that was written with Set is outside the contract
		verifAssume(!pre)
		z, err := s.GetUint64([]byte(other))
		verifAssert(verifAnd(err == nil, z == 0), "getuint64-missing-is-zero")
		return
	case 5:
		verifCaseLabel("StoreLogProto")
		l := vNewEntry()
		msg := &pb.RaftLog{Index: l.Index, Term: l.Term, Type: pb.RaftLog_LogType(l.Type), Data: l.Data, Extensions: l.Extensions, AppendedAt: timestamppb.New(l.AppendedAt)}
		verifAssert(s.StoreLogProto(msg) == nil, "storelogproto-no-error")
		for k := range st.entries {
			st.entries[k].present = verifAnd(st.entries[k].present, st.entries[k].log.Index != l.Index)
		}
		st.entries = append(st.entries, vEntry{present: true, log: l})
	case 6:
		verifCaseLabel("StoreLog")
		l := vNewEntry()
		verifAssert(s.StoreLog(&l) == nil, "storelog-no-error")
		for k := range st.entries {
			st.entries[k].present = verifAnd(st.entries[k].present, st.entries[k].log.Index != l.Index)
		}
		st.entries = append(st.entries, vEntry{present: true, log: l})
	case 7:
		// reopening a JSON database with protobuf encoding converts it in place; bound: the
		// entries are not commands (command entries need the robust.Message decoders, C18)
		verifCaseLabel("ConvertToProto")
		verifAssume(!useProto)
		for k := range st.entries {
			verifAssume(st.entries[k].log.Type != raft.LogCommand)
		}
		s.useProtobuf = true
		verifAssert(s.ConvertToProto() == nil, "converttoproto-no-error")
	}
	vProbe(st, "after")
}
