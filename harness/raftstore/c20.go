package raftstore

// C20 (log store): lock discipline for pairs of LevelDBStore operations the
// system runs concurrently on the IRC log store: Apply appends, compaction
// deletes, Restore closes the store, status pages read.

import (
	"github.com/hashicorp/raft"

	pb "github.com/robustirc/robustirc/internal/proto"
)

var vStoreWriters = []string{"StoreLogProto", "DeleteRange", "Close"}
var vStoreReaders = []string{"FirstIndex", "LastIndex", "GetLog", "StoreLogProto"}

func verifHarness_C20_raftstore() {
	a := verifCase(len(vStoreWriters))
	b := verifCase(len(vStoreReaders))
	st := vBuildStore(true)
	idx := nondetU64()
	verifAssume(idx > 0 && idx < vMaxIndex)
	msg := &pb.RaftLog{Index: idx, Term: 1, Type: pb.RaftLog_LogType(raft.LogCommand), Data: []byte("x")}
	lo, hi := nondetU64(), nondetU64()
	verifAssume(lo <= hi && hi < vMaxIndex)
	q := nondetU64()
	verifAssume(q < vMaxIndex)
	op := func(name string) func() {
		switch name {
		case "StoreLogProto":
			return func() { st.s.StoreLogProto(msg) }
		case "DeleteRange":
			return func() { st.s.DeleteRange(lo, hi) }
		case "Close":
			return func() { st.s.Close() }
		case "FirstIndex":
			return func() { st.s.FirstIndex() }
		case "LastIndex":
			return func() { st.s.LastIndex() }
		case "GetLog":
			return func() {
				var l raft.Log
				st.s.GetLog(q, &l)
			}
		}
		return func() {}
	}
	opA, opB := op(vStoreWriters[a]), op(vStoreReaders[b])
	verifCaseLabel(vStoreWriters[a] + " || " + vStoreReaders[b])
	runA := func() {
		verifOp("A:" + vStoreWriters[a])
		opA()
		verifOp("")
	}
	runB := func() {
		verifOp("B:" + vStoreReaders[b])
		opB()
		verifOp("")
	}
	if vStoreWriters[a] == "Close" {
		// a closed store cannot be used any more (the handle is nil): the access logs are
		// collected with the other operation first; what happens to callers that still hold
		// a closed store is not a data race and outside this property
		verifConcurrently(runB, runA)
	} else {
		verifConcurrently(runA, runB)
	}
	verifAssert(verifLocksetsConsistent(), "locksets:"+vStoreWriters[a]+"||"+vStoreReaders[b])
}
