package ircserver

// Oracles over one step from the symbolic template.  They are written without
// branching on symbolic values (verifOr/verifAnd/verifImplies and map slots),
// so that they add obligations but no paths.

import (
	"strings"

	"gopkg.in/sorcix/irc.v2"
)

type vPreChan struct {
	modes     ['z']bool
	key       string
	topic     string
	topicNick string
	nbans     int
	bans      []string
}

type vPreSess struct {
	nick, user, pass string
	oper, server     bool
	loggedIn         bool
	prefix           irc.Prefix
	invited          []bool // per template channel
	lastMsgID        uint64
}

type vPre struct {
	chans     []vPreChan
	sess      []vPreSess // over t.all()
	actor     vPreSess
	nsessions int
	nchannels int
	banned    map[string]string
}

func vSnapSess(t *vTpl, s *Session) vPreSess {
	p := vPreSess{nick: s.Nick, user: s.Username, pass: s.Pass, oper: s.Operator, server: s.Server, loggedIn: s.loggedIn, prefix: s.ircPrefix, lastMsgID: s.lastClientMessageId}
	for _, ch := range t.chans {
		p.invited = append(p.invited, s.invitedTo[ChanToLower(ch.name)])
	}
	return p
}

func vSnapshot(t *vTpl, actor *Session) *vPre {
	p := &vPre{nsessions: len(t.i.sessions), nchannels: len(t.i.channels)}
	for _, ch := range t.chans {
		pc := vPreChan{modes: ch.modes, key: ch.key, topic: ch.topic, topicNick: ch.topicNick, nbans: len(ch.bans)}
		for _, b := range ch.bans {
			pc.bans = append(pc.bans, b.pattern)
		}
		p.chans = append(p.chans, pc)
	}
	for _, s := range t.all() {
		p.sess = append(p.sess, vSnapSess(t, s))
	}
	p.actor = vSnapSess(t, actor)
	p.banned = make(map[string]string)
	n := verifSlots(t.i.Config.Banned)
	for j := 0; j < n; j++ {
		verifMapPutIf(p.banned, verifSlotKey(t.i.Config.Banned, j).(string), verifSlotVal(t.i.Config.Banned, j).(string), verifSlotPresent(t.i.Config.Banned, j))
	}
	return p
}

// vHasNickKey: some present slot of m has the given lowered nick as key.
func vChanHasNick(ch *channel, key lcNick) bool {
	n := verifSlots(ch.nicks)
	r := false
	for j := 0; j < n; j++ {
		r = verifOr(r, verifAnd(verifSlotPresent(ch.nicks, j), verifSlotKey(ch.nicks, j).(lcNick) == key))
	}
	return r
}

func vChanOp(ch *channel, key lcNick) bool {
	n := verifSlots(ch.nicks)
	r := false
	for j := 0; j < n; j++ {
		st := verifSlotVal(ch.nicks, j).(*[maxChanMemberStatus]bool)
		r = verifOr(r, verifAnd(verifSlotPresent(ch.nicks, j), verifSlotKey(ch.nicks, j).(lcNick) == key, st[chanop]))
	}
	return r
}

// vLive: the session object is still registered in i.sessions.
func vLive(i *IRCServer, s *Session) bool {
	n := verifSlots(i.sessions)
	r := false
	for j := 0; j < n; j++ {
		r = verifOr(r, verifAnd(verifSlotPresent(i.sessions, j), verifSlotVal(i.sessions, j).(*Session) == s))
	}
	return r
}

func vChanExists(i *IRCServer, ch *channel) bool {
	n := verifSlots(i.channels)
	r := false
	for j := 0; j < n; j++ {
		r = verifOr(r, verifAnd(verifSlotPresent(i.channels, j), verifSlotVal(i.channels, j).(*channel) == ch))
	}
	return r
}

// ---------------------------------------------------------------- C14

// vInvariant asserts the representation invariant on the post-state.
func vInvariant(st *vStep, pre *vPre) {
	i := st.t.i
	// 1. nickname index: every entry names a live, undeleted session under its lowered nick
	nn := verifSlots(i.nicks)
	ok1 := true
	for j := 0; j < nn; j++ {
		s := verifSlotVal(i.nicks, j).(*Session)
		k := verifSlotKey(i.nicks, j).(lcNick)
		ok1 = verifAnd(ok1, verifImplies(verifSlotPresent(i.nicks, j),
			verifAnd(s.Nick != "", k == NickToLower(s.Nick), vLive(i, s), !s.deleted)))
	}
	vA(st, ok1, "inv-nick-index-entries-are-live-sessions-under-lowered-nick")
	// every live session with a nickname is reachable through the index (hence nicks are unique)
	ns := verifSlots(i.sessions)
	ok2, ok7, okv := true, true, true
	for j := 0; j < ns; j++ {
		s := verifSlotVal(i.sessions, j).(*Session)
		present := verifSlotPresent(i.sessions, j)
		found := false
		for q := 0; q < nn; q++ {
			found = verifOr(found, verifAnd(verifSlotPresent(i.nicks, q), verifSlotVal(i.nicks, q).(*Session) == s, verifSlotKey(i.nicks, q).(lcNick) == NickToLower(s.Nick)))
		}
		ok2 = verifAnd(ok2, verifImplies(verifAnd(present, s.Nick != "", !s.deleted), found))
		ok7 = verifAnd(ok7, verifImplies(present, !s.deleted))
		okv = verifAnd(okv, verifImplies(verifAnd(present, s.Nick != "", s.Id.Reply == 0, !s.Server), IsValidNickname(s.Nick)))
	}
	vA(st, ok2, "inv-every-named-session-owns-its-lowered-nick")
	vA(st, ok7, "inv-no-deleted-session-remains")
	vA(st, okv, "inv-client-nicknames-valid")
	// 2/3. channels
	nc := verifSlots(i.channels)
	okc, okm, oke := true, true, true
	for j := 0; j < nc; j++ {
		ch := verifSlotVal(i.channels, j).(*channel)
		present := verifSlotPresent(i.channels, j)
		lc := verifSlotKey(i.channels, j).(lcChan)
		okc = verifAnd(okc, verifImplies(present, verifAnd(IsValidChannel(ch.name), lc == ChanToLower(ch.name))))
		nm := verifSlots(ch.nicks)
		any := false
		for q := 0; q < nm; q++ {
			mp := verifSlotPresent(ch.nicks, q)
			mk := verifSlotKey(ch.nicks, q).(lcNick)
			any = verifOr(any, mp)
			// every member key is an owned nickname of a session that lists the channel
			owned := false
			for r := 0; r < nn; r++ {
				o := verifSlotVal(i.nicks, r).(*Session)
				owned = verifOr(owned, verifAnd(verifSlotPresent(i.nicks, r), verifSlotKey(i.nicks, r).(lcNick) == mk, o.Channels[lc]))
			}
			okm = verifAnd(okm, verifImplies(verifAnd(present, mp), owned))
		}
		oke = verifAnd(oke, verifImplies(present, any))
		// a session lists the channel only if the channel lists the session
		for r := 0; r < ns; r++ {
			s := verifSlotVal(i.sessions, r).(*Session)
			okm = verifAnd(okm, verifImplies(verifAnd(present, verifSlotPresent(i.sessions, r), s.Channels[lc]), vChanHasNick(ch, NickToLower(s.Nick))))
		}
	}
	vA(st, okc, "inv-channel-names-valid-and-keyed-by-lowered-name")
	vA(st, okm, "inv-membership-symmetric")
	vA(st, oke, "inv-no-empty-channel")
	// a session never lists a channel that does not exist
	okx := true
	for r := 0; r < ns; r++ {
		s := verifSlotVal(i.sessions, r).(*Session)
		nl := verifSlots(s.Channels)
		for q := 0; q < nl; q++ {
			k := verifSlotKey(s.Channels, q).(lcChan)
			ex := false
			for j := 0; j < nc; j++ {
				ex = verifOr(ex, verifAnd(verifSlotPresent(i.channels, j), verifSlotKey(i.channels, j).(lcChan) == k))
			}
			okx = verifAnd(okx, verifImplies(verifAnd(verifSlotPresent(i.sessions, r), verifSlotPresent(s.Channels, q)), ex))
		}
	}
	vA(st, okx, "inv-listed-channels-exist")
	// 6. limits (step form: never raised above max(limit, count before))
	maxS, maxC := i.Config.MaxSessions, i.Config.MaxChannels
	nsPost, ncPost := uint64(len(i.sessions)), uint64(len(i.channels))
	vA(st, verifOr(maxS == 0, nsPost <= maxS, nsPost <= uint64(pre.nsessions)), "inv-session-limit")
	vA(st, verifOr(maxC == 0, ncPost <= maxC, ncPost <= uint64(pre.nchannels)), "inv-channel-limit")
}

// ---------------------------------------------------------------- C15

func vLinesWellFormed(st *vStep) {
	for _, m := range st.reply.Messages {
		vA(st, verifClean(m.Data), "line-free-of-cr-lf-nul")
		vA(st, len(m.Data) <= 510, "line-at-most-510-bytes")
		vA(st, len(m.Data) > 0, "line-not-empty")
	}
}

// vHygiene: strings stored in the state stay free of CR/LF/NUL.
func vHygiene(st *vStep) {
	i := st.t.i
	ok := true
	ns := verifSlots(i.sessions)
	for j := 0; j < ns; j++ {
		s := verifSlotVal(i.sessions, j).(*Session)
		ok = verifAnd(ok, verifImplies(verifSlotPresent(i.sessions, j), verifAnd(
			verifClean(s.Nick), verifClean(s.Username), verifClean(s.Realname), verifClean(s.AwayMsg), verifClean(s.svid),
			verifClean(s.ircPrefix.Name), verifClean(s.ircPrefix.User), verifClean(s.ircPrefix.Host))))
	}
	nc := verifSlots(i.channels)
	for j := 0; j < nc; j++ {
		ch := verifSlotVal(i.channels, j).(*channel)
		ok = verifAnd(ok, verifImplies(verifSlotPresent(i.channels, j), verifAnd(
			verifClean(ch.name), verifClean(ch.topic), verifClean(ch.topicNick), verifClean(ch.key))))
	}
	vA(st, ok, "stored-strings-stay-free-of-cr-lf-nul")
}

// ---------------------------------------------------------------- C12

// vRecipients checks every outgoing line of the step against the entitled sessions.
func vRecipients(st *vStep, pre *vPre) {
	t, i := st.t, st.t.i
	sent := verifSentMessages(st.reply)
	all := t.all()
	// reached for every case, also those that produce no line at all
	vA(st, len(sent) == len(st.reply.Messages), "every-outgoing-line-is-inspected")
	for k, m := range sent {
		if k >= len(st.reply.Messages) {
			break
		}
		rm := st.reply.Messages[k]
		np := len(m.Params)
		if np > 3 {
			np = 3
		}
		fromServer := m.Prefix == nil || m.Prefix == i.ServerPrefix
		// the session the line is "from": the owner of the prefix nickname (pre-state)
		for x := range t.sess {
			sx := t.sess[x]
			px := pre.sess[x]
			got := rm.InterestingFor[sx.Id.Id]
			isActor := sx == st.actor
			// named by one of the first parameters (old or new nickname)
			named := false
			for p := 0; p < np; p++ {
				lp := NickToLower(m.Params[p])
				named = verifOr(named, verifAnd(px.nick != "", lp == NickToLower(px.nick)), verifAnd(sx.Nick != "", lp == NickToLower(sx.Nick)))
			}
			// the line is about this session itself: it owns the prefix nickname (before or after)
			if !fromServer {
				lp := NickToLower(m.Prefix.Name)
				named = verifOr(named, verifAnd(px.nick != "", lp == NickToLower(px.nick)), verifAnd(sx.Nick != "", lp == NickToLower(sx.Nick)))
			}
			// member (before or after) of a template channel the line names
			viaChan := false
			for c, ch := range t.chans {
				lc := ChanToLower(ch.name)
				tgt := false
				for p := 0; p < np; p++ {
					tgt = verifOr(tgt, ChanToLower(m.Params[p]) == lc)
				}
				mem := verifOr(t.member[c][x], vChanHasNick(ch, NickToLower(sx.Nick)))
				viaChan = verifOr(viaChan, verifAnd(tgt, mem))
			}
			// NICK and QUIT go to everybody sharing a channel with the subject (prefix owner)
			viaSubject := false
			if !fromServer && (m.Command == irc.NICK || m.Command == irc.QUIT || m.Command == irc.KILL) {
				for y := range all {
					isSubj := verifAnd(pre.sess[y].nick != "", NickToLower(m.Prefix.Name) == NickToLower(pre.sess[y].nick))
					share := false
					for c := range t.chans {
						share = verifOr(share, verifAnd(t.member[c][y], t.member[c][x]))
					}
					viaSubject = verifOr(viaSubject, verifAnd(isSubj, share))
				}
			}
			// network-wide notices of IRC operators ($-targets)
			wide := false
			if !fromServer && (m.Command == irc.PRIVMSG || m.Command == irc.NOTICE) && len(m.Params) > 0 {
				wide = verifAnd(pre.actor.oper, strings.HasPrefix(m.Params[0], "$"))
			}
			// the closing ERROR goes to the session that is being closed
			closing := false
			if m.Command == irc.ERROR {
				closing = verifOr(sx.deleted, !vLive(i, sx))
			}
			vA(st, verifImplies(got, verifOr(isActor, named, viaChan, viaSubject, wide, closing)), "recipient-is-entitled")
			// completeness: NICK and QUIT reach every other client that shared a channel with the subject
			if !fromServer && (m.Command == irc.NICK || m.Command == irc.QUIT) {
				for y := range all {
					// the subject is identified by its whole pre-state prefix (the host part carries the session id),
					// not by the name alone: a link's server name may coincide with somebody's nickname
					py := pre.sess[y].prefix
					isSubj := verifAnd(pre.sess[y].nick != "", py.Name == pre.sess[y].nick, m.Prefix.Name == py.Name, m.Prefix.User == py.User, m.Prefix.Host == py.Host)
					share := false
					for c := range t.chans {
						share = verifOr(share, verifAnd(t.member[c][y], t.member[c][x]))
					}
					vA(st, verifImplies(verifAnd(isSubj, share, all[y] != sx, vLive(i, sx), !sx.deleted), got), "nick-and-quit-reach-everybody-sharing-a-channel")
				}
			}
			// completeness: a channel message reaches every other member
			if !fromServer && (m.Command == irc.PRIVMSG || m.Command == irc.NOTICE) && len(m.Params) > 0 && st.role != vRoleServices {
				for c, ch := range t.chans {
					isTgt := verifAnd(ChanToLower(m.Params[0]) == ChanToLower(ch.name), strings.HasPrefix(m.Params[0], "#"))
					vA(st, verifImplies(verifAnd(isTgt, t.member[c][x], !isActor), got), "channel-message-reaches-every-other-member")
				}
			}
		}
		// identity: relayed conversation lines of a client carry the actor's own prefix
		if !fromServer && st.role != vRoleServices && (m.Command == irc.PRIVMSG || m.Command == irc.NOTICE) {
			vA(st, verifAnd(m.Prefix.Name == pre.actor.nick, m.Prefix.User == pre.actor.user, m.Prefix.Host == vHost(st.actor.Id.Id)), "relayed-line-carries-senders-identity")
		}
	}
}

// ---------------------------------------------------------------- C13

func vPrivileges(st *vStep, pre *vPre) {
	t, i := st.t, st.t.i
	if st.role == vRoleServices {
		// services commands are honoured because the session authenticated as a services link
		vA(st, pre.actor.server, "services-commands-only-from-authenticated-link")
		return
	}
	actorIdx := 0
	all := t.all()
	for c, ch := range t.chans {
		pc := pre.chans[c]
		actorMember := t.member[c][actorIdx]
		actorOp := t.chanop[c][actorIdx]
		mayMode := verifOr(actorOp, pre.actor.oper)
		// modes, key, bans
		modesChanged := false
		for _, m := range "ntsikxr" {
			modesChanged = verifOr(modesChanged, ch.modes[m] != pc.modes[m])
		}
		bansChanged := len(ch.bans) != pc.nbans
		for b := 0; b < pc.nbans && b < len(ch.bans); b++ {
			bansChanged = verifOr(bansChanged, ch.bans[b].pattern != pc.bans[b])
		}
		vA(st, verifImplies(verifOr(modesChanged, ch.key != pc.key), mayMode), "mode-or-key-change-needs-chanop-or-oper")
		vA(st, verifImplies(bansChanged, mayMode), "ban-change-needs-chanop-or-oper")
		// channel operator status
		for x := range all {
			lk := NickToLower(all[x].Nick)
			postOp := vChanOp(ch, lk)
			vA(st, verifImplies(verifAnd(vChanExists(i, ch), postOp != t.chanop[c][x], vChanHasNick(ch, lk), t.member[c][x]), mayMode), "chanop-change-needs-chanop-or-oper")
			if x != actorIdx {
				// somebody else lost membership: KICK (chanop) or removal by an IRC operator
				vA(st, verifImplies(verifAnd(t.member[c][x], !vChanHasNick(ch, lk)), verifOr(actorOp, pre.actor.oper)), "removing-another-member-needs-chanop-or-oper")
				// invitation granted to somebody else
				inv := all[x].invitedTo[ChanToLower(ch.name)]
				vA(st, verifImplies(verifAnd(inv, !pre.sess[x].invited[c]), verifAnd(actorMember, verifOr(!pc.modes['i'], actorOp))), "invite-needs-membership-and-chanop-on-invite-only")
			}
		}
		// topic
		topicChanged := verifOr(ch.topic != pc.topic, ch.topicNick != pc.topicNick)
		vA(st, verifImplies(topicChanged, verifAnd(actorMember, verifOr(!pc.modes['t'], actorOp))), "topic-change-needs-membership-and-chanop-on-plus-t")
		// joining an existing channel
		joined := verifAnd(!actorMember, vChanHasNick(ch, NickToLower(st.actor.Nick)))
		pa := pre.actor
		pfx := pa.prefix.String()
		addr := pa.nick + "!" + pa.user + "@" + st.actor.RemoteAddr
		isBanned := false
		for b := 0; b < pc.nbans && b < len(ch.bans); b++ {
			isBanned = verifOr(isBanned, ch.bans[b].re.MatchString(pfx), ch.bans[b].re.MatchString(addr))
		}
		vA(st, verifImplies(verifAnd(joined, bansChanged == false), !isBanned), "join-requires-no-matching-ban")
		vA(st, verifImplies(verifAnd(joined, pc.modes['i']), pa.invited[c]), "join-invite-only-requires-invitation")
		if st.cmd == "JOIN" && len(st.msg.Params) >= 1 {
			key := ""
			if len(st.msg.Params) >= 2 {
				key = st.msg.Params[1]
			}
			single := verifAnd(!vHasComma(st.msg.Params[0]), !vHasComma(key))
			vA(st, verifImplies(verifAnd(joined, single, pc.modes['k'], !pc.modes['x']), key == pc.key), "join-keyed-channel-requires-key")
		}
	}
	// other sessions ended, bans of the network changed: IRC operator only
	for x := 1; x < len(t.sess); x++ {
		gone := verifOr(!vLive(i, t.sess[x]), t.sess[x].deleted)
		vA(st, verifImplies(gone, pre.actor.oper), "ending-another-session-needs-oper")
	}
	vA(st, verifImplies(!verifDeepEq(i.Config.Banned, pre.banned, "nileqempty"), pre.actor.oper), "gline-needs-oper")
	// becoming an operator needs a configured name/password pair
	if st.cmd == "OPER" && len(st.msg.Params) >= 2 {
		match := false
		for _, op := range i.Config.IRC.Operators {
			match = verifOr(match, verifAnd(op.Name == st.msg.Params[0], op.Password == st.msg.Params[1]))
		}
		vA(st, verifImplies(verifAnd(st.actor.Operator, !pre.actor.oper), match), "oper-needs-configured-credentials")
	} else if st.cmd != "NICK" && st.cmd != "USER" && st.cmd != "PASS" {
		vA(st, verifImplies(st.actor.Operator, pre.actor.oper), "operator-status-only-through-oper")
	}
	// becoming a services link needs a configured services password
	svc := false
	for _, sv := range i.Config.IRC.Services {
		svc = verifOr(svc, pre.actor.pass == "services="+sv.Password)
	}
	vA(st, verifImplies(verifAnd(st.actor.Server, !pre.actor.server), svc), "services-link-needs-configured-password")
}

func vHasComma(s string) bool { return strings.Contains(s, ",") }

// ---------------------------------------------------------------- C10 / C17

func vMarkers(st *vStep) {
	i := st.t.i
	live := vLive(i, st.actor)
	vA(st, verifImplies(live, i.LastPostMessage(st.actor.Id) == st.rm.ClientMessageId), "duplicate-marker-advanced")
}

// vEnded: a session that is gone left no trace (nickname free, no channel lists it).
func vEnded(st *vStep, pre *vPre) {
	t, i := st.t, st.t.i
	for _, s := range t.all() {
		gone := !vLive(i, s)
		nn := verifSlots(i.nicks)
		owns := false
		for j := 0; j < nn; j++ {
			owns = verifOr(owns, verifAnd(verifSlotPresent(i.nicks, j), verifSlotVal(i.nicks, j).(*Session) == s))
		}
		vA(st, verifImplies(gone, !owns), "ended-session-owns-no-nickname")
		// a session that was ended during the entry is out of the table when the entry is done
		// (a leftover would be revived with its nickname by the next snapshot round trip)
		vA(st, verifImplies(s.deleted, gone), "ended-session-is-removed-from-the-table")
	}
	// a session that ended (or is marked deleted) has left every channel
	for x, s := range t.all() {
		ended := verifOr(!vLive(i, s), s.deleted)
		listed := false
		for _, ch := range t.chans {
			if vChanExists(i, ch) {
				listed = verifOr(listed, verifAnd(pre.sess[x].nick != "", vChanHasNick(ch, NickToLower(pre.sess[x].nick))))
			}
		}
		vA(st, verifImplies(ended, !listed), "ended-session-is-on-no-channel")
	}
}

// vA records an obligation with a label that names the call site class (role
// and command of the step), so that a recorded finding identifies one handler
// and the same kind of violation in another handler is still reported.  The
// obligations of a step are discharged together by vFlush: one query decides
// whether all of them hold on the path; only if not are they asserted one by
// one (which names the violated ones).
func vA(st *vStep, c bool, label string) {
	st.pend = append(st.pend, vObligation{c, label + ":" + vRoleNames[st.role] + ":" + st.cmd})
}

type vObligation struct {
	c     bool
	label string
}

func vFlush(st *vStep) {
	if len(st.pend) == 0 {
		return
	}
	all := true
	for _, o := range st.pend {
		all = verifAnd(all, o.c)
	}
	if all {
		verifAssert(true, st.pend[0].label)
		st.pend = nil
		return
	}
	for _, o := range st.pend {
		verifAssert(o.c, o.label)
	}
	st.pend = nil
}
