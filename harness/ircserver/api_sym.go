package ircserver

import (
	"regexp"

	"gopkg.in/sorcix/irc.v2"
)

// verifSentMessages returns, parallel to reply.Messages, the structured
// irc.Message behind every robust.Message the step appended (ghost state
// captured by the engine at (*IRCServer).send).
func verifSentMessages(reply *Replyctx) []*irc.Message

// verifRegexpEither returns the compiled first expression when sel holds, else
// the second; both are constants, the choice is a symbolic bit.
func verifRegexpEither(sel bool, first, second string) *regexp.Regexp
