package ircserver

import "gopkg.in/sorcix/irc.v2"

// verifSentMessages returns, parallel to reply.Messages, the structured
// irc.Message behind every robust.Message the step appended (ghost state
// captured by the engine at (*IRCServer).send).
func verifSentMessages(reply *Replyctx) []*irc.Message
