package ircserver

import (
	"sort"
	"time"
	"strings"

	"github.com/robustirc/robustirc/internal/robust"
	"gopkg.in/sorcix/irc.v2"
)

// vCommandNames lists the commands of the current Commands table for a role.
func vCommandNames(server bool) []string {
	var names []string
	for name := range Commands {
		if strings.HasPrefix(name, "server_") != server {
			continue
		}
		names = append(names, strings.TrimPrefix(name, "server_"))
	}
	sort.Strings(names)
	return names
}

// services grammar: which commands carry a prefix and how many parameters at least
// (the shape of the lines a services package sends; DESIGN.md §4).
func vSvcNeedPrefix(cmd string) bool {
	switch cmd {
	case "INVITE", "JOIN", "KICK", "KILL", "MODE", "PART", "PRIVMSG", "NOTICE", "SVSJOIN", "SVSPART", "TOPIC":
		return true
	}
	return false
}

func vSvcMinParams(cmd string) int {
	switch cmd {
	case "JOIN", "PART", "MODE":
		return 1
	case "NICK":
		return 4
	}
	return 0
}

type vStep struct {
	t     *vTpl
	actor *Session
	role  int
	cmd   string
	msg   *irc.Message
	rm    *robust.Message
	reply *Replyctx
	pre   *vPre
	pend  []vObligation // obligations collected by vA, discharged by vFlush
}

// commands that dedicated runs single out (parameter "cmdname")
var vNamedCmds = []string{"", "MODE", "NICK", "PING", "JOIN", "QUIT", "KILL", "PART", "PRIVMSG", "SVSHOLD"}

var vRoleNames = []string{"unregistered", "client", "oper", "services"}

// vDoStep builds the template and applies one IRCFromClient entry the way
// FSM.applyRobustMessage does.
func vDoStep() *vStep {
	role := verifCase(4)
	if r := verifParam("role", -1); r >= 0 && r != role {
		verifAssume(false)
	}
	names := vCommandNames(role == vRoleServices)
	ci := verifCase(len(names) + 1)
	if c := verifParam("cmd", -1); c >= 0 && c != ci {
		verifAssume(false)
	}
	cmd := "XUNKNOWN"
	if ci < len(names) {
		cmd = names[ci]
	}
	if k := verifParam("cmdname", 0); k > 0 && cmd != vNamedCmds[k] {
		verifAssume(false) // runs that single out one command name it, so that table changes do not shift it
	}
	K := verifParam("K", 3)
	n := verifCase(K + 1)
	verifCaseLabel("role=" + vRoleNames[role] + " cmd=" + cmd + " nparams=" + string(rune('0'+n)))
	if role == vRoleServices && n < vSvcMinParams(cmd) {
		verifAssume(false)
	}
	t := vBuild(role)
	i := t.i
	actor := t.sess[0]
	if role == vRoleServices {
		actor = t.link
	}
	params := make([]string, n)
	for j := range params {
		params[j] = vStr(t.L)
		// bound: comma-separated lists have at most two items
		verifAssume(strings.Count(params[j], ",") <= verifParam("commas", 1))
	}
	if lt := verifParam("longtext", 0); lt > 0 && n >= 2 {
		// a text that makes the rendered line longer than one IRC line: arbitrary first and last
		// bytes around harmless filler (the cut at 510 bytes must hold for every such line)
		params[1] = vStr(2) + strings.Repeat("a", lt) + vStr(2)
	}
	if cmd == "MODE" && n >= 2 && verifParam("modeprefix", 0) == 1 {
		// compound mode strings: the unprivileged ban-list query "+b" followed by one more mode change
		tail := vStr(2)
		params[1] = "+b" + tail
	}
	if (cmd == "MODE" || cmd == "SVSMODE") && n >= 2 {
		// bound: at most this many characters in a mode string
		verifAssume(len(params[1]) <= verifParam("modelen", 2))
	}
	if cmd == "PASS" {
		// bound: total length of the password text
		total := 0
		for j := range params {
			total += len(params[j]) + 1
		}
		verifAssume(total <= verifParam("passlen", 8))
	}
	msg := &irc.Message{Command: cmd, Params: params}
	if role == vRoleServices {
		if vSvcNeedPrefix(cmd) || nondetBool() {
			msg.Prefix = &irc.Prefix{Name: vStr(t.L)}
		}
	}
	// client handlers never read msg.Prefix (the bridge does not forward one); it stays nil
	rm := &robust.Message{
		Id:              robust.Id{Id: nondetU64()},
		Session:         actor.Id,
		Type:            robust.IRCFromClient,
		Data:            verifIteS(nondetBool(), cmd, ":p "+cmd),
		ClientMessageId: nondetU64(),
		UnixNano:        nondetI64In(-(1 << 60), 1<<60),
	}
	if verifParam("addr", 0) > 0 {
		rm.RemoteAddr = vStr(t.L)
	}
	verifAssume(rm.Id.Id > 0x1000)
	st := &vStep{t: t, actor: actor, role: role, cmd: cmd, msg: msg, rm: rm}
	st.pre = vSnapshot(t, actor)
	if err := i.UpdateLastClientMessageID(rm); err != nil {
		verifAssert(false, "actor-session-missing")
		return st
	}
	st.reply = i.ProcessMessage(rm, msg)
	i.SetLastProcessed(rm.Id)
	i.MaybeDeleteSession(rm.Session)
	return st
}

// C06: the step returns normally for every state of the template and every line.
func verifHarness_C06_step() {
	st := vDoStep()
	verifAssert(st.reply != nil, "reply-not-nil")
}

// C14: the representation invariant is inductive over the step.
func verifHarness_C14_step() {
	st := vDoStep()
	if st.reply != nil {
		vInvariant(st, st.pre)
	}
	vFlush(st)
}

// C12: recipients and sender identity of every outgoing line.
func verifHarness_C12_step() {
	st := vDoStep()
	if st.reply != nil {
		vRecipients(st, st.pre)
	}
	vFlush(st)
}

// C13: privileged effects require the privilege.
func verifHarness_C13_step() {
	st := vDoStep()
	if st.reply != nil {
		vPrivileges(st, st.pre)
	}
	vFlush(st)
}

// C15 link (3): every produced line is one clean line; stored strings stay clean.
func verifHarness_C15_step() {
	st := vDoStep()
	if st.reply != nil {
		vLinesWellFormed(st)
		vHygiene(st)
	}
	vFlush(st)
}

// C10 (a) and C17 (c): duplicate marker advances; ended sessions leave no trace.
func verifHarness_C10_step() {
	st := vDoStep()
	if st.reply != nil {
		vMarkers(st)
	}
	vFlush(st)
}

func verifHarness_C17_step() {
	st := vDoStep()
	if st.reply != nil {
		vEnded(st, st.pre)
	}
	vFlush(st)
}

// C07 (replay half): applying an entry that is already marked as message of
// death only advances the session's activity and duplicate-detection marker;
// everything else is untouched and the step cannot panic.
func verifHarness_C07_replay() {
	mark := verifDrawMark()
	a := vBuild(vRoleClient)
	verifDrawRewind(mark)
	b := vBuild(vRoleClient)
	target := a.sess[0].Id
	if nondetBool() {
		target = robust.Id{Id: nondetU64()} // possibly a session that does not exist (any more)
	}
	rm := &robust.Message{
		Id:              robust.Id{Id: nondetU64()},
		Session:         target,
		Type:            robust.MessageOfDeath,
		Data:            vStr(a.L),
		ClientMessageId: nondetU64(),
		UnixNano:        nondetI64In(-(1 << 60), 1<<60),
	}
	// this is the whole MessageOfDeath case of FSM.applyRobustMessage
	a.i.UpdateLastClientMessageID(rm)
	verifAssert(verifDeepEq(a.i, b.i, "skip=Session.LastActivity,Session.LastNonPing,Session.lastClientMessageId"), "message-of-death-replay-touches-only-activity-and-marker")
	if target == a.sess[0].Id {
		verifAssert(a.i.LastPostMessage(target) == rm.ClientMessageId, "message-of-death-advances-the-duplicate-marker")
	}
}

// C03: serializing the state and loading it into a fresh instance is invisible.
func verifHarness_C03_roundtrip() {
	t := vBuild(verifCase(2) + vRoleClient) // registered client or operator as first session
	i := t.i
	data, err := i.Marshal(nondetU64())
	verifAssert(err == nil, "marshal-no-error")
	j := NewIRCServer("robustirc.net", i.ServerCreation)
	_, err = j.Unmarshal(data)
	verifAssert(err == nil, "unmarshal-no-error")
	if err != nil {
		return
	}
	verifAssert(verifDeepEq(i.sessions, j.sessions, "nileqempty"), "roundtrip-sessions")
	verifAssert(verifDeepEq(i.nicks, j.nicks, "nileqempty"), "roundtrip-nickname-index")
	verifAssert(verifDeepEq(i.channels, j.channels, "nileqempty"), "roundtrip-channels")
	verifAssert(verifDeepEq(i.svsholds, j.svsholds, "nileqempty"), "roundtrip-svsholds")
	verifAssert(verifDeepEq(i.serverSessions, j.serverSessions, "nileqempty"), "roundtrip-server-sessions")
	verifAssert(i.lastProcessed == j.lastProcessed, "roundtrip-last-processed")
	a, b := i.Config, j.Config
	verifAssert(a.Revision == b.Revision, "roundtrip-config-revision")
	verifAssert(verifDeepEq(a.IRC, b.IRC, "nileqempty"), "roundtrip-config-irc")
	verifAssert(verifAnd(a.SessionExpiration == b.SessionExpiration, a.PostMessageCooloff == b.PostMessageCooloff), "roundtrip-config-durations")
	verifAssert(verifDeepEq(a.TrustedBridges, b.TrustedBridges, "nileqempty"), "roundtrip-config-trusted-bridges")
	verifAssert(verifAnd(a.CaptchaURL == b.CaptchaURL, a.CaptchaRequiredForLogin == b.CaptchaRequiredForLogin), "roundtrip-config-captcha")
	verifAssert(string(a.CaptchaHMACSecret) == string(b.CaptchaHMACSecret), "roundtrip-config-captcha-secret-bytes")
	verifAssert(verifImplies(a.CaptchaHMACSecret == nil, b.CaptchaHMACSecret == nil), "roundtrip-config-unset-captcha-secret-stays-unset")
	verifAssert(verifImplies(a.CaptchaHMACSecret != nil, b.CaptchaHMACSecret != nil), "roundtrip-config-set-captcha-secret-stays-set")
	verifAssert(verifAnd(a.MaxSessions == b.MaxSessions, a.MaxChannels == b.MaxChannels), "roundtrip-config-limits")
	verifAssert(verifDeepEq(a.Banned, b.Banned, "nileqempty"), "roundtrip-config-banned")
	verifAssert(verifDeepEq(a.WhitelistedOrigins, b.WhitelistedOrigins, "nileqempty"), "roundtrip-config-whitelisted-origins")
}

// C17 (a): a lookup answers "no such session" only for ids that are not
// sessions and older than something applied; ids newer than everything
// applied are "not yet seen".
func verifHarness_C17_lookup() {
	t := vBuild(vRoleClient)
	i := t.i
	// ids are raft indexes: every session id is at most the newest applied id
	for _, s := range t.all() {
		verifAssume(s.Id.Id <= i.lastProcessed.Id)
	}
	q := robust.Id{Id: nondetU64()}
	s, err := i.GetSession(q)
	isSession := false
	for _, x := range t.sess {
		isSession = verifOr(isSession, x.Id == q)
	}
	if t.link != nil {
		isSession = verifOr(isSession, t.link.Id == q)
	}
	verifAssert(verifImplies(err == nil, verifAnd(isSession, s != nil)), "found-session-exists")
	if err == nil && s != nil {
		verifAssert(s.Id == q, "found-session-is-the-one-asked-for")
	}
	verifAssert(verifImplies(isSession, err == nil), "live-session-is-found")
	verifAssert(verifImplies(err == ErrNoSuchSession, verifAnd(!isSession, q.Id < i.lastProcessed.Id)), "no-such-session-only-for-dead-ids-older-than-applied")
	verifAssert(verifImplies(verifAnd(!isSession, q.Id > i.lastProcessed.Id), err == ErrSessionNotYetSeen), "newer-than-applied-is-not-yet-seen")
	verifAssert(verifOr(err == nil, err == ErrNoSuchSession, err == ErrSessionNotYetSeen), "lookup-error-is-one-of-the-two")
}

// C17 (b): the expiry sweep proposes deletion for exactly the client sessions
// whose last activity is older than the configured expiration.
func verifHarness_C17_expire() {
	t := vBuild(vRoleClient)
	i := t.i
	now := vTime()
	verifSetNow(now)
	deletes := i.ExpireSessions()
	timeout := time.Duration(i.Config.SessionExpiration)
	all := t.all()
	if t.link != nil {
		all = append(all, t.link)
	}
	for _, s := range all {
		want := verifAnd(s.Id.Reply == 0, now.Sub(s.LastActivity) > timeout)
		got := false
		n := 0
		for _, d := range deletes {
			if d.Session == s.Id {
				got = true
				n++
				verifAssert(d.Type == robust.DeleteSession, "expiry-proposes-delete-session")
			}
		}
		verifAssert(got == want, "expiry-exactly-for-idle-client-sessions")
		verifAssert(n <= 1, "expiry-proposes-each-session-once")
	}
}

// C01: two executions of the same entry on the same state agree on every
// reply (ids, bytes, recipients) and on the resulting state, whatever order
// the hash maps are iterated in and whatever the clock says.
func verifHarness_C01_step() {
	mark := verifDrawMark()
	verifPermute(0)
	a := vDoStep()
	verifDrawRewind(mark)
	verifPermute(verifParam("permute", 1))
	b := vDoStep()
	verifPermute(0)
	st := a
	if a.reply == nil || b.reply == nil {
		vA(st, a.reply == nil && b.reply == nil, "both-executions-complete")
		vFlush(st)
		return
	}
	vA(st, len(a.reply.Messages) == len(b.reply.Messages), "same-number-of-replies")
	for k := 0; k < len(a.reply.Messages) && k < len(b.reply.Messages); k++ {
		x, y := a.reply.Messages[k], b.reply.Messages[k]
		vA(st, x.Id == y.Id, "same-reply-ids")
		vA(st, x.Data == y.Data, "same-reply-bytes-in-the-same-order")
		vA(st, verifDeepEq(x.InterestingFor, y.InterestingFor, "nileqempty"), "same-recipients")
	}
	vA(st, verifDeepEq(a.t.i, b.t.i, "skip=IRCServer.ServerCreation;nileqempty"), "same-resulting-state")
	vFlush(st)
}
