package ircserver

import (
	"regexp"

	"gopkg.in/sorcix/irc.v2"
)

// Native variant: the structured messages are recovered by parsing the
// rendered lines.
func verifSentMessages(reply *Replyctx) []*irc.Message {
	out := make([]*irc.Message, len(reply.Messages))
	for k, m := range reply.Messages {
		out[k] = irc.ParseMessage(m.Data)
		if out[k] == nil {
			out[k] = &irc.Message{}
		}
	}
	return out
}

func verifRegexpEither(sel bool, first, second string) *regexp.Regexp {
	if sel {
		return regexp.MustCompile(first)
	}
	return regexp.MustCompile(second)
}
