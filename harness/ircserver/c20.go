package ircserver

// C20: lock discipline of the IRC server state.  Two operations that the
// running system executes concurrently are run on the same symbolic state;
// every pair of conflicting accesses to the same memory location must be
// ordered by a common mutex (held in write mode by the writer).

import (
	"github.com/robustirc/robustirc/internal/robust"
	"gopkg.in/sorcix/irc.v2"
)

var vWriterOps = []string{"ProcessMessage-PING", "ProcessMessage-NICK", "ProcessMessage-PRIVMSG", "UpdateLastClientMessageID", "CreateSession", "SetLastProcessed", "MaybeDeleteSession", "ThrottleUntil"}
var vReaderOps = []string{"Marshal", "ExpireSessions", "ThrottleUntil", "GetSessions", "GetSession", "GetNick", "LastPostMessage", "NumSessions", "NumChannels", "SessionLimit", "ChannelLimit", "TrustedBridge", "Banned", "GetAuth", "OriginWhitelisted", "captchaConfigured"}

// vWriterOp draws the operation's inputs now and returns the operation itself,
// so that nothing but the operation runs on the concurrent goroutines of a replay.
func vWriterOp(t *vTpl, op string) func() {
	i := t.i
	s := t.sess[0]
	rm := &robust.Message{Id: robust.Id{Id: 0x5000}, Session: s.Id, Type: robust.IRCFromClient, Data: "x", ClientMessageId: nondetU64(), UnixNano: nondetI64In(1, 1<<60)}
	p1, p2, u := vStr(t.L), vStr(t.L), nondetU64()
	switch op {
	case "ProcessMessage-PING":
		return func() { i.ProcessMessage(rm, &irc.Message{Command: "PING", Params: []string{p1}}) }
	case "ProcessMessage-NICK":
		return func() { i.ProcessMessage(rm, &irc.Message{Command: "NICK", Params: []string{p1}}) }
	case "ProcessMessage-PRIVMSG":
		return func() { i.ProcessMessage(rm, &irc.Message{Command: "PRIVMSG", Params: []string{p1, p2}}) }
	case "UpdateLastClientMessageID":
		return func() { i.UpdateLastClientMessageID(rm) }
	case "CreateSession":
		return func() { i.CreateSession(robust.Id{Id: 0x6000}, p1, rm.Timestamp()) }
	case "SetLastProcessed":
		return func() { i.SetLastProcessed(robust.Id{Id: u}) }
	case "MaybeDeleteSession":
		return func() { i.MaybeDeleteSession(s.Id) }
	case "ThrottleUntil":
		return func() { i.ThrottleUntil(s.Id) }
	}
	return func() {}
}

func vReaderOp(t *vTpl, op string) func() {
	i := t.i
	id := t.sess[0].Id
	if nondetBool() {
		// an id this node has no session for (deleted, or not yet seen): the lookups then consult lastProcessed
		id = robust.Id{Id: nondetU64()}
	}
	p := vStr(t.L)
	switch op {
	case "Marshal":
		return func() { i.Marshal(1) }
	case "ExpireSessions":
		return func() { i.ExpireSessions() }
	case "ThrottleUntil":
		return func() { i.ThrottleUntil(id) }
	case "GetSessions":
		return func() { i.GetSessions() }
	case "GetSession":
		return func() { i.GetSession(id) }
	case "GetNick":
		return func() { i.GetNick(id) }
	case "LastPostMessage":
		return func() { i.LastPostMessage(id) }
	case "NumSessions":
		return func() { i.NumSessions() }
	case "NumChannels":
		return func() { i.NumChannels() }
	case "SessionLimit":
		return func() { i.SessionLimit() }
	case "ChannelLimit":
		return func() { i.ChannelLimit() }
	case "TrustedBridge":
		return func() { i.TrustedBridge(p) }
	case "Banned":
		return func() { i.Banned(p) }
	case "GetAuth":
		return func() { i.GetAuth(id) }
	case "OriginWhitelisted":
		return func() { i.OriginWhitelisted(p) }
	case "captchaConfigured":
		return func() { i.captchaConfigured() }
	}
	return func() {}
}

func verifHarness_C20_ircserver() {
	a := verifCase(len(vWriterOps))
	b := verifCase(len(vReaderOps))
	if p := verifParam("opa", -1); p >= 0 && p != a {
		verifAssume(false)
	}
	if p := verifParam("opb", -1); p >= 0 && p != b {
		verifAssume(false)
	}
	t := vBuild(vRoleClient)
	// throttling only happens with a configured cool-off; keep the state small
	verifCaseLabel(vWriterOps[a] + " || " + vReaderOps[b])
	opA, opB := vWriterOp(t, vWriterOps[a]), vReaderOp(t, vReaderOps[b])
	verifConcurrently(func() {
		verifOp("A:" + vWriterOps[a])
		opA()
		verifOp("")
	}, func() {
		verifOp("B:" + vReaderOps[b])
		opB()
		verifOp("")
	})
	verifAssert(verifLocksetsConsistent(), "locksets:"+vWriterOps[a]+"||"+vReaderOps[b])
}
