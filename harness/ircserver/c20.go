package ircserver

// C20: lock discipline of the IRC server state.  Two operations that the
// running system executes concurrently are run on the same symbolic state;
// every pair of conflicting accesses to the same memory location must be
// ordered by a common mutex (held in write mode by the writer).

import (
	"github.com/robustirc/robustirc/internal/robust"
	"gopkg.in/sorcix/irc.v2"
)

var vWriterOps = []string{"ProcessMessage-PING", "ProcessMessage-NICK", "ProcessMessage-PRIVMSG", "UpdateLastClientMessageID", "CreateSession", "SetLastProcessed", "MaybeDeleteSession", "ThrottleUntil"}
var vReaderOps = []string{"Marshal", "ExpireSessions", "ThrottleUntil", "GetSessions", "GetSession", "GetNick", "LastPostMessage", "NumSessions", "NumChannels", "SessionLimit", "ChannelLimit", "TrustedBridge", "Banned", "GetAuth", "OriginWhitelisted", "captchaConfigured"}

func vRunWriterOp(t *vTpl, op string) {
	i := t.i
	s := t.sess[0]
	rm := &robust.Message{Id: robust.Id{Id: 0x5000}, Session: s.Id, Type: robust.IRCFromClient, Data: "x", ClientMessageId: nondetU64(), UnixNano: nondetI64In(1, 1<<60)}
	switch op {
	case "ProcessMessage-PING":
		i.ProcessMessage(rm, &irc.Message{Command: "PING", Params: []string{vStr(t.L)}})
	case "ProcessMessage-NICK":
		i.ProcessMessage(rm, &irc.Message{Command: "NICK", Params: []string{vStr(t.L)}})
	case "ProcessMessage-PRIVMSG":
		i.ProcessMessage(rm, &irc.Message{Command: "PRIVMSG", Params: []string{vStr(t.L), vStr(t.L)}})
	case "UpdateLastClientMessageID":
		i.UpdateLastClientMessageID(rm)
	case "CreateSession":
		i.CreateSession(robust.Id{Id: 0x6000}, vStr(t.L), rm.Timestamp())
	case "SetLastProcessed":
		i.SetLastProcessed(robust.Id{Id: nondetU64()})
	case "MaybeDeleteSession":
		i.MaybeDeleteSession(s.Id)
	case "ThrottleUntil":
		i.ThrottleUntil(s.Id)
	}
}

func vRunReaderOp(t *vTpl, op string) {
	i := t.i
	id := t.sess[0].Id
	switch op {
	case "Marshal":
		i.Marshal(1)
	case "ExpireSessions":
		i.ExpireSessions()
	case "ThrottleUntil":
		i.ThrottleUntil(id)
	case "GetSessions":
		i.GetSessions()
	case "GetSession":
		i.GetSession(id)
	case "GetNick":
		i.GetNick(id)
	case "LastPostMessage":
		i.LastPostMessage(id)
	case "NumSessions":
		i.NumSessions()
	case "NumChannels":
		i.NumChannels()
	case "SessionLimit":
		i.SessionLimit()
	case "ChannelLimit":
		i.ChannelLimit()
	case "TrustedBridge":
		i.TrustedBridge(vStr(t.L))
	case "Banned":
		i.Banned(vStr(t.L))
	case "GetAuth":
		i.GetAuth(id)
	case "OriginWhitelisted":
		i.OriginWhitelisted(vStr(t.L))
	case "captchaConfigured":
		i.captchaConfigured()
	}
}

func verifHarness_C20_ircserver() {
	a := verifCase(len(vWriterOps))
	b := verifCase(len(vReaderOps))
	if p := verifParam("opa", -1); p >= 0 && p != a {
		verifAssume(false)
	}
	if p := verifParam("opb", -1); p >= 0 && p != b {
		verifAssume(false)
	}
	t := vBuild(vRoleClient)
	// throttling only happens with a configured cool-off; keep the state small
	verifCaseLabel(vWriterOps[a] + " || " + vReaderOps[b])
	verifConcurrently(func() {
		verifOp("A:" + vWriterOps[a])
		vRunWriterOp(t, vWriterOps[a])
		verifOp("")
	}, func() {
		verifOp("B:" + vReaderOps[b])
		vRunReaderOp(t, vReaderOps[b])
		verifOp("")
	})
	verifAssert(verifLocksetsConsistent(), "locksets:"+vWriterOps[a]+"||"+vReaderOps[b])
}
