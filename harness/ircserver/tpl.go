package ircserver

// The symbolic IRC state template (DESIGN.md §4): an IRCServer whose
// sessions, channels, membership, modes, configuration and timestamps are
// solver variables constrained only by the representation invariant.

import (
	"time"

	"github.com/robustirc/robustirc/internal/config"
	"github.com/robustirc/robustirc/internal/robust"
	"gopkg.in/sorcix/irc.v2"
)

const (
	vRoleUnreg = iota
	vRoleClient
	vRoleOper
	vRoleServices
)

type vTpl struct {
	i      *IRCServer
	sess   []*Session // client sessions; sess[0] is the actor for client roles
	link   *Session   // services link (nil when absent)
	pseudo []*Session // pseudo-clients of the link
	chans  []*channel
	member [][]bool // member[c][k] over all() order
	chanop [][]bool
	L      int
}

// all returns every session that can own a nickname: clients then pseudo-clients.
func (t *vTpl) all() []*Session {
	out := append([]*Session{}, t.sess...)
	return append(out, t.pseudo...)
}

// Shape groups: which optional elements of the template are solver variables.
// A check that must keep the number of structural shapes small (the
// serialization round trip walks every element) varies one group at a time.
const (
	vgUserModes = 1 << iota
	vgChanModes
	vgMembership
	vgInvites
	vgConfigOpt
	vgStatus
	vgTimes
)

func vBit(group int, def bool) bool {
	if verifParam("sym", 0xffff)&group != 0 {
		return nondetBool()
	}
	return def
}

func vStr(L int) string {
	s := nondetString(L)
	verifAssume(verifIsASCII(s))
	verifAssume(verifClean(s))
	return s
}

func vNonEmpty(L int) string {
	s := vStr(L)
	verifAssume(s != "")
	return s
}

// vTime is an instant within ±2^60 ns of the epoch.
func vTime() time.Time { return time.Unix(0, nondetI64In(-(1 << 60), 1<<60)) }

func vHost(id uint64) string {
	const hexd = "0123456789abcdef"
	s := ""
	if id == 0 {
		return "robust/0x0"
	}
	for id > 0 {
		s = string(hexd[id%16]) + s
		id /= 16
	}
	return "robust/0x" + s
}

func vConfig(i *IRCServer, L int) {
	var cfg config.Network
	cfg.Revision = nondetU64()
	nops := verifParam("ops", 1)
	for k := 0; k < nops; k++ {
		cfg.IRC.Operators = append(cfg.IRC.Operators, config.IRCOp{Name: vStr(L), Password: vStr(L)})
	}
	nsvc := verifParam("svc", 1)
	for k := 0; k < nsvc; k++ {
		cfg.IRC.Services = append(cfg.IRC.Services, config.Service{Password: vStr(L)})
	}
	cfg.SessionExpiration = config.Duration(nondetI64In(0, 1<<50))
	cfg.PostMessageCooloff = config.Duration(nondetI64In(0, 1<<40))
	cfg.CaptchaURL = vStr(L)
	if verifParam("secretnil", 0) == 0 || nondetBool() {
		cfg.CaptchaHMACSecret = config.HexString(vStr(L))
	}
	cfg.CaptchaRequiredForLogin = nondetBool()
	cfg.MaxSessions = nondetU64()
	cfg.MaxChannels = nondetU64()
	cfg.Banned = make(map[string]string)
	if verifParam("banned", 1) > 0 {
		verifMapPutIf(cfg.Banned, vStr(L), vStr(L), vBit(vgConfigOpt, true))
	}
	if verifParam("cfgmaps", 0) == 0 || nondetBool() {
		cfg.TrustedBridges = make(map[string]string)
		verifMapPutIf(cfg.TrustedBridges, vStr(L), vStr(L), vBit(vgConfigOpt, true))
	}
	if verifParam("cfgmaps", 0) == 0 || nondetBool() {
		cfg.WhitelistedOrigins = make(map[string]bool)
		verifMapPutIf(cfg.WhitelistedOrigins, vStr(L), true, vBit(vgConfigOpt, true))
	}
	i.Config = cfg
}

// vClient builds one client session.  status: 0 fresh/unregistered, 1 registered, 2 operator.
func vClient(id uint64, status int, L int) *Session {
	s := &Session{
		Id:        robust.Id{Id: id},
		Channels:  make(map[lcChan]bool),
		invitedTo: make(map[lcChan]bool),
	}
	s.auth = nondetString(10)
	verifAssume(len(s.auth) >= 8)
	s.Nick = vStr(L)
	s.Username = vStr(L)
	s.Realname = vStr(L)
	s.AwayMsg = vStr(L)
	s.Pass = vStr(L)
	s.svid = vStr(L)
	s.RemoteAddr = vStr(L)
	s.LastActivity = vTime()
	s.LastNonPing = vTime()
	solved := vTime()
	verifAssume(!solved.After(s.LastActivity))
	s.LastSolvedCaptcha = verifIteT(vBit(vgTimes, true), solved, time.Time{})
	s.Created = nondetI64In(1, 1<<60) // creation instants are positive unix nanoseconds
	verifAssume(s.Created <= s.LastActivity.UnixNano())
	s.lastClientMessageId = nondetU64()
	s.throttlingExponent = int(nondetI64In(0, 40))
	s.modes['i'] = vBit(vgUserModes, true)
	s.modes['G'] = vBit(vgUserModes, false)
	s.modes['r'] = vBit(vgUserModes, false)
	verifAssume(verifImplies(s.Nick != "", IsValidNickname(s.Nick)))
	switch status {
	case 3:
		s.loggedIn = vBit(vgStatus, true)
		s.Operator = vBit(vgStatus, false)
		s.modes['o'] = vBit(vgStatus, false)
		verifAssume(verifImplies(s.loggedIn, verifAnd(s.Nick != "", s.Username != "")))
		verifAssume(verifImplies(s.Operator, verifAnd(s.loggedIn, s.modes['o'])))
	case 0:
		s.loggedIn = false
		// login happens as soon as nick and user name are known, unless a captcha is required
	case 1, 2:
		s.loggedIn = true
		verifAssume(s.Nick != "")
		verifAssume(s.Username != "")
		if status == 2 {
			s.Operator = true
			s.modes['o'] = true
		}
	}
	// updateIrcPrefix has run iff NICK or USER has been processed
	pinit := verifOr(s.Nick != "", s.Username != "", vBit(vgStatus, true))
	s.ircPrefix = irc.Prefix{Name: s.Nick, User: s.Username, Host: verifIteS(pinit, vHost(id), "")}
	return s
}

func vPseudo(link *Session, reply uint64, L int) *Session {
	s := &Session{
		Id:        robust.Id{Id: link.Id.Id, Reply: reply},
		Channels:  make(map[lcChan]bool),
		invitedTo: make(map[lcChan]bool),
		svid:      "0",
	}
	s.Nick = vNonEmpty(L)
	s.Username = vStr(L)
	s.Realname = vStr(L)
	s.LastActivity = vTime()
	s.LastNonPing = s.LastActivity
	s.Created = s.LastActivity.UnixNano()
	s.ircPrefix = irc.Prefix{Name: s.Nick, User: s.Username, Host: vHost(link.Id.Id)}
	return s
}

// vBuild constructs the template for the given actor role.
func vBuild(role int) *vTpl {
	L := verifParam("L", 4)
	t := &vTpl{L: L}
	i := NewIRCServer("robustirc.net", time.Unix(0, 1420070400000000000))
	t.i = i
	vConfig(i, L)

	nS := verifParam("S", 2)
	for k := 0; k < nS; k++ {
		status := 1
		if k == 0 {
			switch role {
			case vRoleUnreg:
				status = 0
			case vRoleOper:
				status = 2
			}
		} else {
			status = 3 // symbolic registration status
		}
		s := vClient(uint64(0x10*(k+1)), status, L)
		t.sess = append(t.sess, s)
		i.sessions[s.Id] = s
	}
	if role == vRoleServices || verifParam("link", 0) > 0 {
		l := vClient(0x100, 0, L)
		l.Server = true
		l.loggedIn = vBit(vgStatus, false)
		l.ircPrefix = irc.Prefix{Name: vNonEmpty(L)}
		t.link = l
		i.sessions[l.Id] = l
		i.serverSessions = append(i.serverSessions, l.Id.Id)
		nP := verifParam("P", 1)
		for k := 0; k < nP; k++ {
			p := vPseudo(l, uint64(0x1000+k), L)
			t.pseudo = append(t.pseudo, p)
			i.sessions[p.Id] = p
		}
	}

	// nickname ownership: distinct lowered nicks among all owners
	owners := t.all()
	if t.link != nil {
		owners = append(owners, t.link)
	}
	for a := 0; a < len(owners); a++ {
		verifMapPutIf(i.nicks, NickToLower(owners[a].Nick), owners[a], owners[a].Nick != "")
		for b := a + 1; b < len(owners); b++ {
			verifAssume(verifOr(owners[a].Nick == "", owners[b].Nick == "", NickToLower(owners[a].Nick) != NickToLower(owners[b].Nick)))
		}
	}

	// channels
	nC := verifParam("C", 1)
	members := t.all()
	for c := 0; c < nC; c++ {
		ch := &channel{nicks: make(map[lcNick]*[maxChanMemberStatus]bool)}
		ch.name = nondetString(L)
		verifAssume(verifIsASCII(ch.name))
		verifAssume(IsValidChannel(ch.name))
		for _, o := range t.chans {
			verifAssume(ChanToLower(o.name) != ChanToLower(ch.name))
		}
		for _, m := range "ntsikxr" {
			ch.modes[m] = vBit(vgChanModes, m == 'n' || m == 't')
		}
		ch.key = vStr(L)
		ch.topic = vStr(L)
		ch.topicNick = vStr(L)
		ch.topicTime = verifIteT(vBit(vgTimes, true), vTime(), time.Time{})
		nB := verifParam("bans", 1)
		for b := 0; b < nB; b++ {
			// a ban either matches every user ("*") or one specific mask: the two classes
			// the handlers can tell apart; arbitrary expressions are outside (DESIGN.md §12.4)
			re := verifRegexpEither(nondetBool(), ".*", "^q!q@q$")
			ch.bans = append(ch.bans, banPattern{re: re, pattern: vStr(L)})
		}
		lc := ChanToLower(ch.name)
		any := false
		mrow := make([]bool, len(members))
		orow := make([]bool, len(members))
		for k, s := range members {
			m := vBit(vgMembership, k == 0)
			op := vBit(vgMembership, k == 0)
			voice := vBit(vgMembership, false)
			// only logged-in clients (and pseudo-clients) can be on a channel
			verifAssume(verifImplies(m, s.Nick != ""))
			if s.Id.Reply == 0 {
				verifAssume(verifImplies(m, s.loggedIn))
			}
			verifAssume(verifImplies(!m, verifAnd(!op, !voice)))
			any = verifOr(any, m)
			mrow[k], orow[k] = m, op
			verifMapPutIf(ch.nicks, NickToLower(s.Nick), &[maxChanMemberStatus]bool{op, voice}, m)
			verifMapPutIf(s.Channels, lc, true, m)
			verifMapPutIf(s.invitedTo, lc, true, verifAnd(!m, vBit(vgInvites, false)))
		}
		verifAssume(any)
		t.member = append(t.member, mrow)
		t.chanop = append(t.chanop, orow)
		t.chans = append(t.chans, ch)
		i.channels[lc] = ch
	}
	if verifParam("svsholds", 1) > 0 {
		verifMapPutIf(i.svsholds, NickToLower(vNonEmpty(L)), svshold{added: vTime(), duration: time.Duration(nondetI64In(0, 1<<50)), reason: vStr(L)}, vBit(vgConfigOpt, true))
	}
	i.lastProcessed = robust.Id{Id: nondetU64()}
	return t
}


